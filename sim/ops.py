"""Shared helpers for the configuration scenarios: path navigation, tree generation in on-disk
(basic) form, expectations for loaded values and defaults, independent document writers/parsers."""
import base64
import binascii
import json
import pickle
import re
from xml.etree import ElementTree as ET

import bson
import yaml
from cincoconfig.core import Config

from . import model, schema, values
from .codec import canon
from .model import OK, REJ, UNSPEC

_PART = re.compile(r"([^.\[\]]+)|\[(\d+)\]")


def resolve(cfg, path):
    """Navigate 'a.b[2].c' from cfg by public attribute / index access."""
    obj = cfg
    if not path:
        return obj
    for name, idx in _PART.findall(path):
        if name:
            obj = getattr(obj, name)
        else:
            obj = list.__getitem__(obj, int(idx))
    return obj


def split_last(path):
    """'a.b[2].c' -> ('a.b[2]', 'c'); 'c' -> ('', 'c')"""
    i = path.rfind(".")
    if i < 0:
        return "", path
    return path[:i], path[i + 1:]


# --------------------------------------------------------------------------- targets in a live config

class Target:
    __slots__ = ("path", "node", "value", "owner", "owner_path")

    def __init__(self, path, node, value, owner, owner_path):
        self.path, self.node, self.value, self.owner, self.owner_path = path, node, value, owner, owner_path


def targets(sd, cfg):
    """Every declared field reachable in the live configuration (through nested configs and list
    items), with the config object that owns it."""
    out = []
    owners = {}

    def vcfg(path, node, c):
        owners[path] = c

    def visit(path, node, value):
        raw = node.get("rawkey")
        if raw is not None and not (raw.isidentifier() and not raw.startswith("_")):
            # an undeclared key that is not a plain identifier ("a.b", "x-y", "_tok"): a dotted path cannot address it, so no
            # operation aims at it (it still shows in every snapshot)
            return
        op, _ = split_last(path)
        out.append(Target(path, node, value, owners.get(op), op))

    schema.walk(sd, cfg, visit, visit_cfg=vcfg)
    cfgs = []
    for p, c in owners.items():
        if p:
            cfgs.append((p, c))
    return out, cfgs, owners


# --------------------------------------------------------------------------- basic (on-disk) forms

def to_basic_valid(node, raw, ctx, _as_key=False):
    """On-disk form of an acceptable python value for trees/documents (independent of the library)."""
    k = node["kind"]
    if raw is None:
        return None
    if k == "bytes":
        r = model.norm(node, raw, ctx)
        b = r.v if isinstance(r, OK) and isinstance(r.v, bytes) else b""
        return b.hex() if node.get("o", {}).get("encoding") == "hex" else base64.b64encode(b).decode()
    if k == "challenge":
        return raw.decode("utf-8", "replace") if isinstance(raw, bytes) else raw
    if k == "list":
        item = node.get("item")
        xs = list(raw) if isinstance(raw, (list, tuple)) else raw
        if item is not None and item["kind"] not in ("any", "schema", "configtype") and isinstance(xs, list):
            return [to_basic_valid(item, x, ctx) for x in xs]
        return xs
    if k == "dict":
        kf, vf = node.get("kf"), node.get("vf")
        if isinstance(raw, dict) and (kf or vf):
            return {(to_basic_valid(kf, a, ctx, True) if kf else a): (to_basic_valid(vf, b, ctx) if vf else b) for a, b in raw.items()}
        return raw
    if isinstance(raw, tuple):
        return _hashable(list(raw)) if _as_key else list(raw)
    return raw


def _hashable(v):
    return tuple(_hashable(x) for x in v) if isinstance(v, list) else v


class ExactDigest:
    def __init__(self, salt, digest, alg):
        self.salt, self.digest, self.alg = salt, digest, alg

    def __repr__(self):
        return "ExactDigest(%s)" % self.alg


def from_basic(node, b, ctx):
    """Documented on-disk -> python conversion of one field value.  OK(raw python) | REJ | UNSPEC"""
    k = node["kind"]
    if k == "bytes":
        if b is None:
            return OK(None)
        if type(b) is not str:
            return REJ
        try:
            if node.get("o", {}).get("encoding") == "hex":
                return OK(bytes.fromhex(b))
            return OK(base64.b64decode(b))
        except (ValueError, binascii.Error):
            return REJ
    if k == "challenge":
        if b is None:
            return OK(None)
        if type(b) is str:
            return OK(b)
        if type(b) is dict:
            try:
                salt = base64.b64decode(b["salt"])
                dig = base64.b64decode(b["digest"])
            except (KeyError, binascii.Error, TypeError, ValueError):
                return REJ
            return OK(ExactDigest(salt, dig, node.get("o", {}).get("hash_algorithm", "sha256").lower()))
        return REJ
    if k == "secure":
        if b is None or type(b) is str:
            return OK(b)
        if type(b) is dict:
            return UNSPEC
        return REJ
    if k == "list":
        item = node.get("item")
        if item is not None and item["kind"] not in ("any", "schema", "configtype") and isinstance(b, (list, tuple)):
            out = []
            for x in b:
                r = from_basic(item, x, ctx)
                if r == REJ:
                    return REJ
                if r == UNSPEC:
                    return UNSPEC
                out.append(r.v)
            return OK(out if isinstance(b, list) else tuple(out))
        if item is not None and item["kind"] not in ("any", "schema", "configtype") and (isinstance(b, (str, bytes, dict, set, frozenset)) or b in (0, False)):
            # the load route wraps any iterable (and any falsy value) into the typed list: the documentation leaves it open
            return UNSPEC
        return OK(b)
    if k == "dict":
        kf, vf = node.get("kf"), node.get("vf")
        if (kf or vf) and isinstance(b, dict):
            out = {}
            for a, x in b.items():
                ra = from_basic(kf, a, ctx) if kf else OK(a)
                rx = from_basic(vf, x, ctx) if vf else OK(x)
                if REJ in (ra, rx):
                    return REJ
                if UNSPEC in (ra, rx):
                    return UNSPEC
                try:
                    out[ra.v] = rx.v
                except TypeError:
                    return UNSPEC
            return OK(out)
        if (kf or vf) and (isinstance(b, (list, tuple)) or (not b and b is not None and not isinstance(b, dict))):
            return UNSPEC   # a sequence of pairs, or a falsy scalar, where a map is expected: documentation leaves it open
        return OK(b)
    return OK(b)


def expect_loaded(node, b, ctx):
    r = from_basic(node, b, ctx)
    if not isinstance(r, OK):
        return r
    if isinstance(r.v, ExactDigest):
        return r
    return model.norm(node, r.v, ctx)


def matches(exp, act):
    if isinstance(exp, ExactDigest):
        return (type(act).__name__ == "DigestValue" and act.salt == exp.salt and act.digest == exp.digest
                and exp.alg in getattr(act.algorithm, "__name__", ""))
    return model.matches(exp, act)


NOCHECK = object()


def default_expect(node):
    """Expectation for the value a fresh configuration exposes for a leaf field (env off)."""
    k = node["kind"]
    o = node.get("o", {})
    if k in ("virtual", "method"):
        return NOCHECK
    if "default" not in o:
        return None
    d = o["default"]
    if isinstance(d, dict) and "$call" in d:
        d = d["$call"]
    if isinstance(d, dict) and "$digest" in d:
        salt, dig, alg = d["$digest"]
        return ExactDigest(bytes.fromhex(salt), bytes.fromhex(dig), alg)
    from .codec import dec
    v = dec(d)
    if k == "challenge" and isinstance(v, str):
        return model.Digest(v.encode(), o.get("hash_algorithm", "sha256").lower())
    if k == "list" and isinstance(v, list) and node.get("item") and node["item"]["kind"] != "any":
        return model.TList(v)
    if k == "dict" and isinstance(v, dict) and (node.get("kf") or node.get("vf")):
        return model.TDict(list(v.items()))
    return v


# --------------------------------------------------------------------------- tree generation

def gen_leaf_basic(rng, node, ctx, want="valid"):
    raw = values.gen_value(rng, node, want, ctx)
    if want == "valid":
        return to_basic_valid(node, raw, ctx)
    return raw


def loadable(node):
    if str(node.get("validator", "")).startswith(("ge:", "le:")):
        return False      # validated against a sibling: the outcome depends on the order of the keys in a tree, no claim on loads
    return node["kind"] not in ("virtual", "method", "include")


def gen_tree(rng, sd, snode, ctx, p_key=0.5, depth=0):
    """A tree in on-disk form for the schema node, every value acceptable."""
    tree = {}
    for f in snode["fields"]:
        if not loadable(f) or rng.random() > p_key:
            continue
        if schema.is_cfg_node(f):
            if depth < 3:
                tree[f["key"]] = gen_tree(rng, sd, schema.sub_schema_node(sd, f), ctx, p_key, depth + 1)
        elif f["kind"] == "list" and f.get("item") and schema.is_cfg_node(f["item"]):
            n = rng.choice([0, 1, 2, 3])
            inode = schema.sub_schema_node(sd, f["item"])
            tree[f["key"]] = [gen_tree(rng, sd, inode, ctx, p_key, depth + 1) for _ in range(n)] if depth < 3 else []
        else:
            tree[f["key"]] = gen_leaf_basic(rng, f, ctx)
    if snode.get("dynamic") and rng.random() < 0.4:
        tree["dyn%d" % rng.randint(1, 3)] = rng.choice([1, "two", [3], {"four": 4}, None, 2.5])
    return tree


def tree_leaf_slots(sd, snode, tree, prefix=""):
    """Yield (path, node, container, key) for every value in ``tree`` that corresponds to a declared
    leaf or to a sub-configuration slot (path uses [i] for list-item configurations)."""
    for f in snode["fields"]:
        k = f["key"]
        if not isinstance(tree, dict) or k not in tree:
            continue
        p = prefix + k
        v = tree[k]
        if schema.is_cfg_node(f):
            yield p, f, tree, k
            if isinstance(v, dict):
                yield from tree_leaf_slots(sd, schema.sub_schema_node(sd, f), v, p + ".")
        elif f["kind"] == "list" and f.get("item") and schema.is_cfg_node(f["item"]):
            yield p, f, tree, k
            if isinstance(v, list):
                inode = schema.sub_schema_node(sd, f["item"])
                for i, it in enumerate(v):
                    if isinstance(it, dict):
                        yield from tree_leaf_slots(sd, inode, it, "%s[%d]." % (p, i))
        else:
            yield p, f, tree, k


def poison_tree(rng, sd, snode, tree, ctx):
    """Replace exactly one slot of an acceptable tree by a rejected value.  -> path or None.
    (What is rejected is re-derived at execution time; this only *aims*.)"""
    slots = [s for s in tree_leaf_slots(sd, snode, tree) if loadable(s[1])]
    if not slots:
        return None
    path, node, cont, key = rng.choice(slots)
    if schema.is_cfg_node(node):
        cont[key] = rng.choice(["scalar", 5, [1, 2], True, 1.5])
        return path
    if node["kind"] == "list" and node.get("item") and schema.is_cfg_node(node["item"]):
        cont[key] = rng.choice(["notalist", 5, {"a": 1}, [5], ["x"], [[]]])
        return path
    if node["kind"] == "bytes":
        cont[key] = rng.choice(["!!!notbase64", 5, ["a"], {"x": 1}, "zz" if node.get("o", {}).get("encoding") == "hex" else "a"])
        return path
    if node["kind"] == "challenge":
        cont[key] = rng.choice([5, {"salt": "!!"}, {"salt": "YQ=="}, ["x"], True, {"salt": 5, "digest": "YQ=="}])
        return path
    if node["kind"] == "secure":
        cont[key] = rng.choice([5, ["x"], True, {"method": "xor"}, {"ciphertext": "YQ=="}, {"method": "nope", "ciphertext": "YQ=="}])
        return path
    if node["kind"] == "dict" and (node.get("kf") or node.get("vf")) and rng.random() < 0.6:
        vf, kf = node.get("vf"), node.get("kf")
        good_k = gen_leaf_basic(rng, kf, ctx) if kf else "k1"
        if vf:
            bad = values.gen_value(rng, vf, "invalid", ctx)
            try:
                cont[key] = {good_k: bad}
                return "%s[%s]" % (path, good_k)
            except TypeError:
                pass
    cont[key] = values.gen_value(rng, node, "invalid", ctx)
    return path


# --------------------------------------------------------------------------- documents (independent of the library)

def _xml_el(key, value):
    ele = ET.Element(key)
    if isinstance(value, str):
        ele.attrib["type"] = "str"
        ele.text = value
    elif isinstance(value, bool):
        ele.attrib["type"] = "bool"
        ele.text = "true" if value else "false"
    elif isinstance(value, int):
        ele.attrib["type"] = "int"
        ele.text = str(value)
    elif isinstance(value, float):
        ele.attrib["type"] = "float"
        ele.text = repr(value)
    elif value is None:
        ele.attrib["type"] = "none"
    elif isinstance(value, list):
        ele.attrib["type"] = "list"
        for item in value:
            ele.append(_xml_el("item", item))
    elif isinstance(value, dict):
        ele.attrib["type"] = "dict"
        for k, v in value.items():
            ele.append(_xml_el(k, v))
    else:
        raise TypeError("non-basic type %s" % type(value))
    return ele


FORMATS = ["json", "yaml", "bson", "xml", "pickle"]


def write_doc(fmt, tree, opts=None):
    """Serialise a plain tree with the underlying library directly (trusted base)."""
    opts = opts or {}
    if fmt == "json":
        return json.dumps(tree).encode()
    if fmt == "yaml":
        t = {opts["root_key"]: tree} if opts.get("root_key") else tree
        return yaml.dump(t, Dumper=yaml.Dumper).encode()
    if fmt == "bson":
        return bson.dumps(tree)
    if fmt == "pickle":
        return pickle.dumps(tree)
    if fmt == "xml":
        return ET.tostring(_xml_el(opts.get("root_tag", "config"), tree), "utf-8")
    raise ValueError(fmt)


def parse_doc(fmt, content, opts=None):
    """The tree the underlying parser yields (trusted base); XML is the library's own typed encoding, so
    for XML the caller keeps the tree it wrote.  Used so that expectations follow the map order of the
    *document* (YAML sorts keys when dumping)."""
    opts = opts or {}
    if fmt == "json":
        return json.loads(content.decode())
    if fmt == "yaml":
        t = yaml.load(content.decode(), Loader=yaml.Loader)
        if opts.get("root_key") and isinstance(t, dict) and opts["root_key"] in t:
            t = t[opts["root_key"]]
        return t
    if fmt == "bson":
        return bson.loads(content)
    if fmt == "pickle":
        return pickle.loads(content)
    raise ValueError(fmt)


def doc_parses(fmt, content, opts=None):
    """Does the underlying parser accept these bytes (and, for XML, is the root the expected one)?"""
    opts = opts or {}
    try:
        if fmt == "json":
            json.loads(content.decode())
        elif fmt == "yaml":
            yaml.load(content.decode(), Loader=yaml.Loader)
        elif fmt == "bson":
            bson.loads(content)
        elif fmt == "pickle":
            pickle.loads(content)
        elif fmt == "xml":
            root = ET.fromstring(content.decode())
            if root.tag != opts.get("root_tag", "config"):
                return False
        else:
            return False
        return True
    except BaseException:  # noqa: BLE001 - whatever the parser raises, it does not parse
        return False


_XML_NAME = re.compile(r"\A[A-Za-z_][A-Za-z0-9_.\-]*\Z")
_XML_BAD = re.compile("[\x00-\x08\x0b\x0c\x0e-\x1f\r\ud800-\udfff￾￿]")


def in_format_domain(fmt, tree):
    """The properties' own domain restrictions (XML: XML chars without CR, keys are XML names; BSON:
    64-bit ints, string keys; JSON/YAML: string keys) plus what each underlying library can encode at all."""
    def rec(v, top=False):
        if isinstance(v, bool) or v is None:
            return True
        if isinstance(v, int):
            return -(2 ** 63) <= v < 2 ** 63 if fmt == "bson" else True
        if isinstance(v, float):
            return True
        if isinstance(v, str):
            if fmt == "xml":
                return not _XML_BAD.search(v) and v == v.strip() if False else not _XML_BAD.search(v)
            try:
                v.encode("utf-8")
            except UnicodeEncodeError:
                return False
            return "\x00" not in v if fmt == "bson" else True
        if isinstance(v, (list,)):
            return all(rec(x) for x in v)
        if type(v) is tuple:
            # pickle reproduces tuples; YAML may (python tags) or may turn them into lists (safe dumper): for YAML only "what
            # a successful save wrote loads again" is claimed (see has_tuple)
            return fmt in ("pickle", "yaml") and all(rec(x) for x in v)
        if isinstance(v, dict):
            for k, x in v.items():
                if not isinstance(k, str):
                    return False
                try:
                    k.encode("utf-8")
                except UnicodeEncodeError:
                    return False          # a lone surrogate in a key: no document format can carry it
                if fmt == "xml" and not _XML_NAME.match(k):
                    return False
                if fmt == "bson" and ("\x00" in k or k.startswith("$") or "." in k):
                    return False
                if not rec(x):
                    return False
            return True
        return fmt == "pickle"
    return rec(tree, True)


def has_tuple(tree):
    if type(tree) is tuple:
        return True
    if isinstance(tree, dict):
        return any(has_tuple(v) for v in tree.values())
    if isinstance(tree, list):
        return any(has_tuple(v) for v in tree)
    return False


__all__ = ["resolve", "split_last", "targets", "gen_tree", "poison_tree", "expect_loaded", "matches", "default_expect",
           "write_doc", "doc_parses", "canon", "Config", "NOCHECK", "FORMATS"]
