"""Schema descriptors: seeded generation, building real cincoconfig schemas from them (always
top-down), and walking a configuration next to its descriptor."""
import cincoconfig as cc
from cincoconfig.core import Config, ConfigTypeField, Schema

from . import model
from .codec import canon, dec, enc

KEYS = ["a", "b", "c", "d", "e", "f", "g", "h", "k", "m", "n", "p", "q", "r", "s", "t", "u", "w", "x", "y", "z",
        "a1", "b2", "ab", "cd", "e_f", "g_h", "xy", "zz", "Kk", "q9", "q_", "w__v"]      # trailing / doubled underscores: doubled dashes in options
LEAF_KINDS = ["string", "loglevel", "appmode", "int", "float", "port", "bool", "ipv4addr", "ipv4net", "hostname",
              "filename", "url", "bytes", "secure", "challenge", "list", "dict", "any"]
ITEM_KINDS = ["string", "int", "float", "bool", "ipv4addr", "bytes", "port", "hostname", "url", "secure", "challenge"]
REGEXES = [r"^[a-z]+$", r"^\w{2,}", r"[0-9]", r"^[A-Z]", r"^ab", r".*x$"]
ALGS = ["md5", "sha1", "sha224", "sha256", "sha384", "sha512"]
EXC = {"ValueError": ValueError, "TypeError": TypeError, "RuntimeError": RuntimeError, "KeyError": KeyError,
       "ZeroDivisionError": ZeroDivisionError, "AttributeError": AttributeError, "OSError": OSError,
       "UnicodeError": UnicodeError}


# =============================================================================== generation

class GenCfg:
    """Swarm knobs for one run's schema."""

    def __init__(self, rng, **over):
        self.kinds = [k for k in LEAF_KINDS if rng.random() < 0.6] or ["int", "string"]
        self.depth = rng.choice([0, 1, 1, 2, 2, 3])
        self.width = rng.randint(2, 6)
        self.p_sub = rng.choice([0.15, 0.3, 0.45])
        self.p_configtype = rng.choice([0.0, 0.1, 0.25])
        self.p_list_schema = rng.choice([0.0, 0.15, 0.3])
        self.p_dynamic = rng.choice([0.0, 0.0, 0.2])
        self.p_validator = rng.choice([0.0, 0.0, 0.15, 0.3])
        self.p_default = rng.choice([0.2, 0.5, 0.8])
        self.p_callable = rng.choice([0.0, 0.2, 0.5])
        self.p_raw_default = 0.0
        self.p_empty_section = 0.0
        self.p_required = rng.choice([0.0, 0.1, 0.3])
        self.p_name = rng.choice([0.0, 0.2])
        self.p_sensitive = rng.choice([0.0, 0.0, 0.3])
        self.env = False
        self.secure_methods = ["aes", "xor", "best"]
        self.key_files = [None]
        self.virtual = rng.random() < 0.3
        self.filename_fs = True
        self.schema_validators = 0.0
        self.featureflags = 0.0
        self.__dict__.update(over)


class _Gen:
    def __init__(self, rng, cfg, world_files=(), world_dirs=(), dns=()):
        self.rng = rng
        self.cfg = cfg
        self.files = list(world_files)
        self.dirs = list(world_dirs)
        self.dns = dict(dns)
        self.types = {}
        self.shared = {}
        self.used_dash = set()
        self.ntypes = 0

    # -- keys
    def key(self, taken, prefix):
        for _ in range(50):
            k = self.rng.choice(KEYS)
            dash = (prefix + k).replace(".", "-").replace("_", "-").lower()
            if k in taken or dash in self.used_dash:
                continue
            taken.add(k)
            self.used_dash.add(dash)
            return k
        return None

    # -- leaves
    def leaf(self, kind=None, as_item=False):
        rng, c = self.rng, self.cfg
        kind = kind or rng.choice(c.kinds)
        o = {}
        node = {"kind": kind, "o": o}
        if kind in ("string",):
            if rng.random() < 0.3:
                o["min_len"] = rng.randint(0, 3)
            if rng.random() < 0.3:
                o["max_len"] = rng.randint(o.get("min_len", 0), 8)
            if rng.random() < 0.2:
                o["regex"] = rng.choice(REGEXES)
            if rng.random() < 0.2:
                o["choices"] = rng.sample(["a", "ab", "AB", "x y", "Zed", "zz", "", "9"], rng.randint(1, 4))
            if rng.random() < 0.3:
                o["transform_case"] = rng.choice(["lower", "upper", "LOWER"])
            if rng.random() < 0.3:
                o["transform_strip"] = rng.choice([True, True, " .", "-_ "])
                if isinstance(o["transform_strip"], str) and o.get("transform_case"):
                    pass  # strip set has no letters: fine
        elif kind == "loglevel":
            if rng.random() < 0.2:
                o["levels"] = rng.choice([["low", "high"], ["a", "b", "c"]])
        elif kind == "appmode":
            if rng.random() < 0.2:
                o["modes"] = rng.choice([["dev", "prod"], ["one", "two", "three"]])
            if rng.random() < 0.3:
                o["create_helpers"] = False
        elif kind in ("int", "port"):
            if rng.random() < 0.5:
                o["min"] = rng.choice([-5, 0, 1, 3, 10, 1024])
            if rng.random() < 0.5:
                o["max"] = o.get("min", 0) + rng.choice([0, 1, 5, 100, 70000])
        elif kind == "float":
            if rng.random() < 0.4:
                o["min"] = rng.choice([-1.5, 0.0, 0.25, 2.0])
            if rng.random() < 0.4:
                o["max"] = (o.get("min") or 0.0) + rng.choice([0.0, 0.5, 10.0])
        elif kind == "ipv4net":
            if rng.random() < 0.5:
                o["min_prefix_len"] = rng.choice([0, 8, 16, 24, 32])
            if rng.random() < 0.5:
                o["max_prefix_len"] = rng.choice([x for x in (0, 8, 16, 24, 30, 32) if x >= o.get("min_prefix_len", 0)])
        elif kind == "hostname":
            if rng.random() < 0.3:
                o["allow_ipv4"] = False
            if rng.random() < 0.3 and self.dns and o.get("allow_ipv4", True):
                # resolve=True with allow_ipv4=False rejects its own resolved address on re-validation
                # (DESIGN 8.1: unspecified), so that combination is not generated
                o["resolve"] = True
        elif kind == "filename":
            if c.filename_fs and rng.random() < 0.6:
                o["exists"] = rng.choice([True, False, "dir", "file"])
            if rng.random() < 0.5:
                o["startdir"] = rng.choice(["/data", "/data/", "/inc", "~", "sub"])
        elif kind == "bytes":
            if rng.random() < 0.5:
                o["encoding"] = "hex"
        elif kind == "secure":
            o["method"] = rng.choice(c.secure_methods)
            if rng.random() < 0.2:
                o["sensitive"] = False
        elif kind == "challenge":
            o["hash_algorithm"] = rng.choice(ALGS)
        elif kind == "list":
            r = rng.random()
            if as_item or r < 0.25:
                pass  # untyped
            elif r < 0.25 + c.p_list_schema and not as_item:
                node["item"] = self.item_config()
            else:
                node["item"] = self.leaf(rng.choice([k for k in ITEM_KINDS]), as_item=True)
        elif kind == "dict":
            if rng.random() < 0.7 and not as_item:
                if rng.random() < 0.7:
                    node["kf"] = self.leaf(rng.choice(["string", "string", "int", "ipv4addr", "bytes"]), as_item=True)
                if rng.random() < 0.8 or "kf" not in node:
                    node["vf"] = self.leaf(rng.choice(ITEM_KINDS), as_item=True)
        if as_item:
            if rng.random() < 0.15 and kind not in ("secure", "challenge"):
                o["required"] = True
            return node
        # common options
        if rng.random() < c.p_required:
            o["required"] = True
        if rng.random() < c.p_name:
            o["name"] = rng.choice(["Friendly Name", "the field"])
        if rng.random() < c.p_sensitive and kind not in ("secure",):
            o["sensitive"] = True
        if rng.random() < c.p_validator and kind in ("string", "int", "float", "port", "bytes", "url", "any", "list", "dict"):
            node["validator"] = rng.choice(["pass", "neg", "negk", "fault"])
        return node

    def item_config(self):
        rng = self.rng
        types = sorted(n for n, v in self.types.items() if v is not None)
        shared = sorted(n for n, v in self.shared.items() if v is not None)
        if types and rng.random() < 0.4:
            return {"kind": "configtype", "type": rng.choice(types)}
        if shared and rng.random() < 0.5:
            return {"kind": "schema", "ref": rng.choice(shared)}
        if rng.random() < 0.5:
            return {"kind": "configtype", "type": self.new_type()}
        name = "S%d" % (len(self.shared) + 1)
        self.shared[name] = None
        self.shared[name] = self.schema_node(depth=max(self.cfg.depth - 1, 0) if rng.random() < 0.3 else 0, prefix=name + "#", top=False)
        return {"kind": "schema", "ref": name}

    def new_type(self):
        done = sorted(n for n, v in self.types.items() if v is not None)
        if self.ntypes >= 8 and done:
            return self.rng.choice(done)       # bound the size of a descriptor
        self.ntypes += 1
        name = "T%d" % self.ntypes
        self.types[name] = None
        sch = self.schema_node(depth=0 if self.rng.random() < 0.7 else 1, prefix=name + "#", top=False)
        self.types[name] = {"schema": sch, "key_filename": self.rng.choice(self.cfg.key_files)}
        return name

    def schema_node(self, depth, prefix="", top=True, key=""):
        rng, c = self.rng, self.cfg
        node = {"kind": "schema", "key": key, "fields": []}
        if rng.random() < c.p_dynamic:
            node["dynamic"] = True
        taken = set()
        n = rng.randint(1, c.width)
        if not top and node.get("dynamic") and getattr(c, "p_empty_section", 0.0) and rng.random() < c.p_empty_section:
            n = 0          # a free-form section: no declared field at all
        for _ in range(n):
            k = self.key(taken, prefix)
            if k is None:
                break
            r = rng.random()
            if depth > 0 and r < c.p_sub:
                sub = self.schema_node(depth - 1, prefix + k + ".", top=False, key=k)
                node["fields"].append(sub)
            elif depth > 0 and r < c.p_sub + c.p_configtype:
                done = sorted(n for n, v in self.types.items() if v is not None)
                t = rng.choice(done) if done and rng.random() < 0.5 else self.new_type()
                node["fields"].append({"kind": "configtype", "key": k, "type": t})
            else:
                leaf = self.leaf()
                leaf["key"] = k
                node["fields"].append(leaf)
        if c.featureflags and rng.random() < c.featureflags:
            k = self.key(taken, prefix)
            if k:
                node["fields"].append({"kind": "featureflag", "key": k, "o": {"default": rng.choice([True, False, True])}})
        if c.virtual and rng.random() < 0.4:
            k = self.key(taken, prefix)
            if k:
                vo = {"value": rng.choice([1, "v", None])}
                if rng.random() < c.p_sensitive:
                    vo = {"value": "virt!%s!secret#%d" % (k, len(prefix)), "sensitive": True}   # distinctive and unique
                node["fields"].append({"kind": "virtual", "key": k, "o": vo})
            k = self.key(taken, prefix)
            if k and rng.random() < 0.5:
                node["fields"].append({"kind": "method", "key": k, "o": {}})
        if c.schema_validators and rng.random() < c.schema_validators:
            node["validators"] = [rng.choice(["pass", "pred", "fault"])]
            if rng.random() < 0.35:
                # several validators on one schema (registered one after the other; all of them count)
                node["validators"] = rng.choice([["pass", "pred"], ["pred", "pass"], ["fault", "pred"], ["pass", "pass", "pred"], ["pred", "fault"]])
        return node


def gen_header_schema(rng, cfg, ctx_world=None):
    """-> {"root": schema node, "types": {...}, "shared": {...}} (defaults are added by
    ``add_defaults`` because they need the model and the world)."""
    g = _Gen(rng, cfg, dns=(ctx_world.dns if ctx_world else ()))
    root = g.schema_node(cfg.depth)
    # "style": how the schema objects are assembled from the descriptor (attribute / item / dotted item path, sections
    # created explicitly or implicitly, validators registered before or after a section's fields): all spellings of
    # the same public builder API, recorded in the case
    return {"root": root, "types": g.types, "shared": g.shared, "style": g.rng.randrange(1 << 16)}


# =============================================================================== traversal

def sub_schema_node(sd, node):
    """The schema node behind a schema / configtype field node or list item node."""
    if node["kind"] == "configtype":
        return sd["types"][node["type"]]["schema"]
    if node["kind"] == "schema" and "ref" in node:
        return sd["shared"][node["ref"]]
    return node


def is_cfg_node(node):
    return node["kind"] in ("schema", "configtype")


def iter_leaves(sd, node=None, prefix=""):
    """Yield (dotted path, leaf node) for every declared non-config field reachable through nested
    schemas and config types (not through list items)."""
    node = node or sd["root"]
    for f in node["fields"]:
        p = prefix + f["key"]
        if is_cfg_node(f):
            yield from iter_leaves(sd, sub_schema_node(sd, f), p + ".")
        else:
            yield p, f


def iter_cfg_paths(sd, node=None, prefix=""):
    node = node or sd["root"]
    for f in node["fields"]:
        if is_cfg_node(f):
            p = prefix + f["key"]
            yield p, f
            yield from iter_cfg_paths(sd, sub_schema_node(sd, f), p + ".")


def node_at(sd, path):
    node = sd["root"]
    f = None
    for part in path.split("."):
        f = next((x for x in node["fields"] if x["key"] == part), None)
        if f is None:
            return None
        if is_cfg_node(f):
            node = sub_schema_node(sd, f)
    return f


PERSISTENT_SKIP = ("virtual", "method")


# =============================================================================== building

class Built:
    """Real schema objects of one session plus the harness callbacks' bookkeeping."""

    def __init__(self):
        self.root = None
        self.types = {}
        self.shared = {}
        self.calls = {}       # default-callable id -> invocation count
        self.vlog = []        # validator invocation log
        self.vcount = 0
        self.fault = None     # {"nth": n, "exc": name} armed for the current operation
        self.fault_fired = 0
        self.fields = {}      # id path -> real field object
        self.ensure = lambda name: None


class _quiet:
    """Deprecated spellings of public APIs warn; the warning is not what is being checked."""

    def __enter__(self):
        import warnings
        self._cm = warnings.catch_warnings()
        self._cm.__enter__()
        warnings.simplefilter("ignore")

    def __exit__(self, *a):
        return self._cm.__exit__(*a)


def _callback_fault(B):
    B.vcount += 1
    f = B.fault
    if f and f.get("nth") == B.vcount:
        B.fault_fired += 1
        raise EXC[f.get("exc", "RuntimeError")]("injected callback fault")


def _field_validator(B, vid, tag):
    def check(cfg, value):
        B.vlog.append(("field", tag, canon(value) if not isinstance(value, (list, dict)) else ("container", len(value))))
        if vid == "fault":
            _callback_fault(B)
        if vid == "neg" and model._neg_predicate(value):
            raise ValueError("rejected by the harness validator")
        if vid == "negk" and model._neg_predicate(value):
            raise KeyError("rejected by the harness validator (lookup failed)")
        if vid == "tag":
            return model.tag_transform(value)
        if vid.startswith(("ge:", "le:")):
            try:
                sib = getattr(cfg, vid[3:])
            except Exception:  # noqa: BLE001 - the sibling is not there yet (configuration under construction)
                sib = None
            if isinstance(sib, int) and not isinstance(sib, bool) and (value < sib if vid.startswith("ge:") else value > sib):
                raise ValueError("must not be %s %s (%r)" % ("below" if vid.startswith("ge:") else "above", vid[3:], sib))
        return value
    check.__name__ = "validator_%s" % vid
    return check


def _default_arg(B, o, tag):
    if "default" not in o:
        return {}
    d = o["default"]
    if isinstance(d, dict) and "$call" in d:
        payload = d["$call"]
        shared = _dec_default(payload) if d.get("$shared") else None

        def make():
            B.calls[tag] = B.calls.get(tag, 0) + 1
            # a factory may build a new value on every call, or hand out one prebuilt object (a module constant,
            # cached settings); either way configurations must not end up sharing mutable state through it
            return shared if shared is not None else _dec_default(payload)
        make.__name__ = "default_%s" % tag.replace(".", "_")
        # the factory may be any callable: a plain function, a functools.partial, an object with __call__
        kind = _stable(tag) % 4
        if kind == 1:
            import functools
            return {"default": functools.partial(lambda _unused, f=make: f(), None)}
        if kind == 2:
            class Factory:
                def __call__(self):
                    return make()
            return {"default": Factory()}
        return {"default": make}
    return {"default": _dec_default(d)}


def _dec_default(d):
    if isinstance(d, dict) and "$digest" in d:
        import hashlib
        from cincoconfig.fields import DigestValue
        salt, dig, alg = d["$digest"]
        return DigestValue(bytes.fromhex(salt), bytes.fromhex(dig), getattr(hashlib, alg))
    return dec(d)


COMMON = ("required", "name", "sensitive", "env")


def make_field(B, sd, node, tag):
    k = node["kind"]
    o = node.get("o", {})
    kw = {c: o[c] for c in COMMON if c in o}
    kw.update(_default_arg(B, o, tag))
    if node.get("validator"):
        kw["validator"] = _field_validator(B, node["validator"], tag)
    extra = {x: o[x] for x in o if x not in COMMON and x != "default"}
    if k == "string":
        f = cc.StringField(**extra, **kw)
    elif k == "loglevel":
        f = cc.LogLevelField(**extra, **kw)
    elif k == "appmode":
        f = cc.ApplicationModeField(**extra, **kw)
    elif k == "int":
        f = cc.IntField(**extra, **kw)
    elif k == "float":
        f = cc.FloatField(**extra, **kw)
    elif k == "port":
        f = cc.PortField(**extra, **kw)
    elif k == "bool":
        f = cc.BoolField(**kw)
    elif k == "featureflag":
        f = cc.FeatureFlagField(**kw)
    elif k == "ipv4addr":
        f = cc.IPv4AddressField(**extra, **kw)
    elif k == "ipv4net":
        f = cc.IPv4NetworkField(**extra, **kw)
    elif k == "hostname":
        f = cc.HostnameField(**extra, **kw)
    elif k == "filename":
        f = cc.FilenameField(**extra, **kw)
    elif k == "include":
        f = cc.IncludeField(**extra, **kw)
    elif k == "url":
        f = cc.UrlField(**extra, **kw)
    elif k == "bytes":
        f = cc.BytesField(**extra, **kw)
    elif k == "secure":
        f = cc.SecureField(**extra, **kw)
    elif k == "challenge":
        f = cc.ChallengeField(**extra, **kw)
    elif k == "any":
        f = cc.AnyField(**kw)
    elif k == "list":
        item = node.get("item")
        if item is None:
            f = cc.ListField(**kw)
        elif item["kind"] == "configtype":
            B.ensure(item["type"])
            f = cc.ListField(B.types[item["type"]], **kw)
        elif item["kind"] == "schema":
            B.ensure(item["ref"])
            f = cc.ListField(B.shared[item["ref"]], **kw)
        else:
            f = cc.ListField(make_field(B, sd, item, tag + "[]"), **kw)
    elif k == "dict":
        kf = make_field(B, sd, node["kf"], tag + "{k}") if node.get("kf") else None
        vf = make_field(B, sd, node["vf"], tag + "{v}") if node.get("vf") else None
        f = cc.DictField(kf, vf, **kw)
    elif k == "virtual":
        val = o.get("value")
        f = cc.VirtualField(lambda cfg, _v=val: _v, sensitive=bool(o.get("sensitive")))
    elif k == "method":
        f = cc.InstanceMethodField(lambda cfg, *a, **kws: ("method", len(a), type(cfg).__name__))
    else:
        raise ValueError("unknown kind %r" % k)
    B.fields[tag] = f
    return f


def _schema_validator(B, vid, tag):
    def check(cfg):
        from .snapshot import snap
        B.vlog.append(("schema", tag, snap(cfg, None, False)))
        if vid == "fault":
            _callback_fault(B)
        if vid == "pred":
            for key, value in cfg:
                if isinstance(value, int) and not isinstance(value, bool) and value == 13:
                    raise ValueError("schema predicate: 13 is not allowed here")
    check.__name__ = "schema_validator_%s" % vid
    return check


class _Scope:
    """One schema under construction, reached the way user code reaches it."""

    def __init__(self, get, parent=None, key=None, implicit=False):
        self.get, self.parent, self.key, self.implicit = get, parent, key, implicit

    def add_path(self, path, field):
        if self.implicit:
            self.parent.add_path(self.key + "." + path, field)       # schema["section.key"] = field creates the section
        else:
            self.get()[path] = field

    def add(self, key, field, pick):
        if self.implicit:
            self.add_path(key, field)
        elif pick % 2:
            setattr(self.get(), key, field)
        else:
            self.get()[key] = field


def _stable(text):
    return sum(text.encode())


def _register_validators(B, scope, node, prefix):
    for i, vid in enumerate(node.get("validators", ())):
        fn = _schema_validator(B, vid, (prefix.rstrip(".") or "<root>") + ("@%d" % i if i else ""))
        target = scope.get()
        if len(prefix) % 2 and hasattr(type(target), "validator"):
            with _quiet():
                target.validator(fn)          # the older spelling of the same public API
        else:
            cc.validator(target)(fn)


def _populate(B, sd, scope, node, prefix):
    if isinstance(scope, Schema):
        root = scope
        scope = _Scope(lambda: root)
    style = sd.get("style")
    for f in node["fields"]:
        key, tag = f["key"], prefix + f["key"]
        pick = 0 if style is None else style + _stable(tag)
        if f["kind"] == "schema":
            plain = not f.get("dynamic") and f.get("env") is None and f["fields"]
            if style is not None and plain and not f.get("validators") and pick % 5 == 0:
                # a section that comes into being with its first field: schema["section.key"] = field
                sub = _Scope(lambda scope=scope, key=key: scope.get()[key], scope, key, implicit=True)
                _populate(B, sd, sub, f, tag + ".")
            elif style is not None and not getattr(B, "has_env", True) and pick % 11 < 3:
                # a section assembled on its own, inspected (reference paths read), and only then mounted: legitimate
                # where no environment prefix has to be inherited (that needs top-down construction)
                obj = Schema(dynamic=f.get("dynamic", False))
                _populate(B, sd, _Scope(lambda obj=obj: obj), f, tag + ".")
                for _, _, fld in cc.get_all_fields(obj):
                    cc.item_ref_path(fld)
                scope.add(key, obj, pick)
            else:
                obj = Schema(dynamic=f.get("dynamic", False), env=f.get("env"))
                scope.add(key, obj, pick)          # attach first: top-down, env prefixes inherit
                if style is not None and pick % 3 == 1:
                    # user code that spells the section out each time: schema.section.key = field
                    sub = _Scope(lambda scope=scope, key=key: getattr(scope.get(), key), scope, key)
                else:
                    sub = _Scope(lambda obj=obj: obj, scope, key)
                first = style is not None and pick % 7 < 3
                if first:
                    _register_validators(B, sub, f, tag + ".")        # validators declared before the section's fields
                _populate(B, sd, sub, dict(f, validators=()) if first else f, tag + ".")
            B.fields[tag] = scope.get()[key]
        elif f["kind"] == "configtype":
            B.ensure(f["type"])
            scope.add(key, B.types[f["type"]], pick)
            B.fields[tag] = scope.get()[key]
        else:
            scope.add(key, make_field(B, sd, f, tag), pick)
    _register_validators(B, scope, node, prefix)


def _has_env(sd):
    def rec(node):
        if node.get("env") is not None:
            return True
        for f in node["fields"]:
            if f["kind"] == "schema":
                if rec(f):
                    return True
            elif f.get("o", {}).get("env") is not None:
                return True
        return False
    return rec(sd["root"]) or any(rec(t["schema"]) for t in sd.get("types", {}).values()) or any(rec(x) for x in sd.get("shared", {}).values())


def build(sd):
    """Build fresh real schema objects (one 'process') from a descriptor."""
    B = Built()
    B.has_env = _has_env(sd)
    # shared item schemas and config types are built on demand (depth first); descriptors are acyclic by
    # construction: a type or shared schema only refers to ones completed before it was started
    building = set()

    def ensure(name):
        if name in B.types or name in B.shared:
            return
        if name in building:
            raise RuntimeError("cyclic type reference through %r" % name)
        building.add(name)
        node = sd["shared"][name] if name in sd.get("shared", {}) else sd["types"][name]["schema"]
        sch = Schema(dynamic=node.get("dynamic", False), env=node.get("env"))
        _populate(B, sd, sch, node, name + "#")
        if name in sd.get("shared", {}):
            B.shared[name] = sch
        else:
            if int(name[1:]) % 2 or not hasattr(type(sch), "make_type"):
                B.types[name] = cc.make_type(sch, name, module="simtypes", key_filename=sd["types"][name].get("key_filename"))
            else:
                with _quiet():
                    B.types[name] = sch.make_type(name, module="simtypes", key_filename=sd["types"][name].get("key_filename"))
        building.discard(name)

    B.ensure = ensure
    for name in sorted(set(sd.get("shared", {})) | set(sd.get("types", {})), key=lambda n: (int(n[1:]), n[0])):
        ensure(name)
    root = sd["root"]
    B.root = Schema(dynamic=root.get("dynamic", False), env=root.get("env"))
    _populate(B, sd, B.root, root, "")
    return B


# =============================================================================== walking a live config

def walk(sd, cfg, visit, node=None, path="", visit_cfg=None):
    """Call visit(path, leaf node, value) for every declared field readable from ``cfg``, through nested
    configurations and configurations held in lists; dynamic extras are visited with kind 'any'."""
    node = node or sd["root"]
    if visit_cfg:
        visit_cfg(path, node, cfg)
    declared = set()
    for f in node["fields"]:
        declared.add(f["key"])
        p = (path + "." if path else "") + f["key"]
        if f["kind"] == "method":
            continue
        try:
            value = getattr(cfg, f["key"])
        except (AttributeError, KeyError):      # KeyError: the field was declared after this configuration was built
            visit(p, f, _MISSING)
            continue
        if is_cfg_node(f):
            visit(p, f, value)
            if isinstance(value, Config):
                walk(sd, value, visit, sub_schema_node(sd, f), p, visit_cfg)
            continue
        visit(p, f, value)
        if f["kind"] == "list" and f.get("item") and is_cfg_node(f["item"]) and isinstance(value, list):
            inode = sub_schema_node(sd, f["item"])
            for i, item in enumerate(list.__iter__(value)):
                if isinstance(item, Config):
                    walk(sd, item, visit, inode, "%s[%d]" % (p, i), visit_cfg)
                else:
                    visit("%s[%d]" % (p, i), f["item"], item)
    try:
        extras = [(key, value) for key, value in cfg]
    except Exception as exc:  # noqa: BLE001 - a configuration that cannot be enumerated (a changed tree may break it): the
        if type(exc).__name__ == "SeamGap":      # snapshots record that; here there is simply nothing more to visit
            raise
        extras = []
    for key, value in extras:
        if key not in declared:
            name = key if isinstance(key, str) else repr(key)   # e.g. bytes keys from a BSON document
            visit((path + "." if path else "") + name, {"kind": "any", "o": {}, "dynamic": True, "rawkey": name}, value)


_MISSING = object()
MISSING = _MISSING
