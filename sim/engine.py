"""Run loop, recorder, minimiser, replay files.

One integer (the run seed) decides everything in a run; see DESIGN §2.5.  A run is either
*generated* (operations are drawn adaptively while executing, and recorded) or *recorded* (a given
operation list is executed).  Both go through the same ``Scenario.apply``; all oracle expectations
are computed at execution time from the case and the live state, never stored in the case, so a
shrunk case is judged by the same rules as the original.
"""
import hashlib
import json
import os
import random
import traceback
from collections import Counter

from . import seams
from .world import SeamGap, World


def stream(seed, purpose):
    h = hashlib.sha256(("%d:%s" % (seed, purpose)).encode()).digest()
    return random.Random(int.from_bytes(h[:8], "big"))


class Violation(Exception):
    def __init__(self, oracle, sig, msg):
        super().__init__(msg)
        self.oracle = oracle
        self.sig = sig
        self.msg = msg
        self.step = None

    def as_dict(self):
        return {"oracle": self.oracle, "signature": self.sig, "message": self.msg, "step": self.step}


class KnownHit(Exception):
    """A violation whose signature is a listed, open known finding: the run ends, nothing is
    reported, the hit is counted."""

    def __init__(self, sig):
        super().__init__(sig)
        self.sig = sig


class Rec:
    """Per-run recorder: event log (-> fingerprint), reach probes, fault counters."""

    def __init__(self, known=frozenset(), keep_events=True):
        self.known = known
        self.events = []
        self.probes = Counter()
        self.kinds = []
        self.relevant = 0
        self.checks = 0
        self.keep = keep_events
        self._h = hashlib.sha256()

    def log(self, *ev):
        self._h.update(repr(ev).encode("utf-8", "backslashreplace"))
        if self.keep:
            self.events.append(ev)

    def probe(self, name, n=1):
        self.probes[name] += n

    def kind(self, k):
        self.kinds.append(k)

    def check(self, n=1):
        """Count one oracle evaluation that was actually made (for evidence)."""
        self.checks += n

    def fail(self, oracle, sig, msg):
        if sig in self.known:
            raise KnownHit(sig)
        raise Violation(oracle, sig, msg)

    def fingerprint(self):
        return self._h.hexdigest()


class Scenario:
    """Base class.  Sub-classes define one property's workload and oracles."""
    prop = "C00"
    name = "base"
    max_ops = 30

    def header(self, seed, avoid):
        """-> JSON-able case header: swarm configuration, schema descriptor, initial world."""
        return {}

    def start(self, header, world, rec):
        """Build the session(s); -> mutable state object."""
        raise NotImplementedError

    def gen_op(self, state, rng):
        """Adaptive generation of the next concrete operation (JSON-able dict with key 'op');
        None ends the run."""
        raise NotImplementedError

    def apply(self, state, op, rec):
        raise NotImplementedError

    def finish(self, state, rec):
        pass

    def shrink_header(self, header, ops):
        """Yield simpler candidate (header, ops) pairs (optional)."""
        return ()


class MultiScenario(Scenario):
    """Several workloads for one property: the run seed picks one; everything else is delegated."""

    def __init__(self, prop, parts):
        self.prop = prop
        self.parts = parts            # [(weight, scenario)]
        self.name = "+".join(p.name for _, p in parts)

    def header(self, seed, avoid):
        rng = stream(seed, "multi")
        i = rng.choices(range(len(self.parts)), [w for w, _ in self.parts])[0]
        h = self.parts[i][1].header(seed, avoid)
        return {"which": i, "h": h, "max_ops": h.get("max_ops", self.parts[i][1].max_ops)}

    def _p(self, header):
        return self.parts[header["which"]][1]

    def start(self, header, world, rec):
        st = self._p(header).start(header["h"], world, rec)
        st._multi = header["which"]
        return st

    def gen_op(self, state, rng):
        return self.parts[state._multi][1].gen_op(state, rng)

    def apply(self, state, op, rec):
        return self.parts[state._multi][1].apply(state, op, rec)

    def finish(self, state, rec):
        return self.parts[state._multi][1].finish(state, rec)

    def shrink_header(self, header, ops):
        for h2, o2 in self._p(header).shrink_header(header["h"], ops):
            yield dict(header, h=h2), o2


class Outcome:
    __slots__ = ("seed", "header", "ops", "violation", "known_hit", "harness_error", "fingerprint",
                 "probes", "kinds", "fired", "steps", "relevant", "checks", "events", "draws", "journal_len")

    def case(self, scn):
        return {"property": scn.prop, "scenario": scn.name, "seed": self.seed, "header": self.header,
                "ops": self.ops}


def execute(scn, seed, header=None, ops=None, known=frozenset(), avoid=frozenset(), keep_events=False):
    """Run one simulated execution.  Generated when ``ops`` is None, recorded otherwise."""
    out = Outcome()
    out.seed = seed
    out.violation = out.known_hit = out.harness_error = None
    rec = Rec(known, keep_events)
    world = World(seed)
    seams.install(world)
    seams.reset_process_state()
    done_ops = []
    step = -1
    try:
        if header is None:
            header = scn.header(seed, avoid)
            if os.environ.get("CINCOSIM_TIER") == "thorough" and stream(seed, "tier").random() < 0.35:
                # deeper bound in the thorough tier: histories up to three times as long (recorded in the header, so
                # a replay file stays self-contained)
                header["max_ops"] = int(header.get("max_ops", scn.max_ops) * stream(seed, "tier2").choice([2, 3]))
        rec.log("header", json.dumps(header, sort_keys=True))
        world.begin_step(-1)
        state = scn.start(header, world, rec)
        world.end_step()
        if ops is None:
            rng = stream(seed, "ops")
            limit = header.get("max_ops", scn.max_ops)
            for step in range(limit):
                op = scn.gen_op(state, rng)
                if op is None:
                    break
                done_ops.append(op)
                world.begin_step(step, op.get("faults", ()))
                rec.kind(op["op"])
                scn.apply(state, op, rec)
                world.end_step()
        else:
            for step, op in enumerate(ops):
                done_ops.append(op)
                world.begin_step(step, op.get("faults", ()))
                rec.kind(op["op"])
                scn.apply(state, op, rec)
                world.end_step()
        step = len(done_ops)
        world.begin_step(step)
        scn.finish(state, rec)
        world.end_step()
    except Violation as v:
        v.step = step
        out.violation = v.as_dict()
    except KnownHit as k:
        out.known_hit = k.sig
    except SeamGap as g:
        out.harness_error = "SeamGap: %s (step %d)" % (g, step)
    except RecursionError:
        out.harness_error = "RecursionError at step %d" % step
    except Exception:  # a bug in the harness itself: never a violation, never silent
        out.harness_error = "harness exception at step %d:\n%s" % (step, traceback.format_exc())
    finally:
        seams.uninstall()
    if world.escapes and not out.harness_error:
        out.harness_error = "seam escape: %r" % (world.escapes[:3],)
    out.header = header
    out.ops = done_ops if ops is None else list(ops)
    out.fingerprint = rec.fingerprint()
    out.probes = rec.probes
    out.kinds = rec.kinds
    out.fired = Counter((f.get("kind") or f.get("seam")) + ":" + str(f.get("errno", "")) for _, f in world.fired)
    out.steps = len(done_ops)
    out.relevant = rec.relevant
    out.checks = rec.checks
    out.events = rec.events
    out.draws = len(world.draws)
    out.journal_len = len(world.journal)
    return out


# ------------------------------------------------------------------------------- minimisation

def _same(out, target):
    v = out.violation
    return bool(v) and v["oracle"] == target["oracle"] and v["signature"] == target["signature"]


def shrink(scn, case, target, budget=500):
    """Delta-debug the operation list (then the header via the scenario's own candidates) while the
    same oracle with the same signature keeps firing.  Returns (case, executions used)."""
    header, ops, seed = case["header"], list(case["ops"]), case["seed"]
    used = 0

    def fails(h, o):
        nonlocal used
        used += 1
        return _same(execute(scn, seed, h, o), target)

    # 1. truncate after the failing step
    step = target.get("step")
    if isinstance(step, int) and 0 <= step < len(ops) - 1 and fails(header, ops[:step + 1]):
        ops = ops[:step + 1]
    # 2. ddmin on ops
    n = 2
    while len(ops) >= 2 and used < budget:
        chunk = max(1, len(ops) // n)
        removed = False
        for i in range(0, len(ops), chunk):
            cand = ops[:i] + ops[i + chunk:]
            if cand and fails(header, cand):
                ops = cand
                n = max(2, n - 1)
                removed = True
                break
            if used >= budget:
                break
        if not removed:
            if chunk == 1:
                break
            n = min(len(ops), n * 2)
    # 3. drop faults embedded in ops
    for i, op in enumerate(list(ops)):
        if op.get("faults") and used < budget:
            cand = ops[:i] + [{k: v for k, v in op.items() if k != "faults"}] + ops[i + 1:]
            if fails(header, cand):
                ops = cand
    # 4. scenario-specific header/ops simplification, to a fixed point
    progress = True
    while progress and used < budget:
        progress = False
        for h2, o2 in scn.shrink_header(header, ops):
            if used >= budget:
                break
            if fails(h2, o2):
                header, ops = h2, o2
                progress = True
                break
    out = dict(case)
    out["header"], out["ops"] = header, ops
    return out, used


# ------------------------------------------------------------------------------- replay files

VERIF = os.path.dirname(os.path.dirname(os.path.abspath(__file__)))


def write_replay(case, violation, directory=None, fingerprint=None):
    directory = directory or os.path.join(VERIF, "replays")
    os.makedirs(directory, exist_ok=True)
    doc = dict(case)
    doc["violation"] = violation
    if fingerprint:
        doc["fingerprint"] = fingerprint
    sig = hashlib.sha256(violation["signature"].encode()).hexdigest()[:10]
    path = os.path.join(directory, "%s-%d-%s.json" % (case["property"], case["seed"], sig))
    with open(path, "w") as fp:
        json.dump(doc, fp, indent=1)   # never sort keys: map order is part of a case
        fp.write("\n")
    return path


def load_replay(path):
    with open(path) as fp:
        return json.load(fp)
