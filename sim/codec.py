"""JSON-safe encoding of arbitrary generated Python values (so that a replay file is self-contained)
and canonical, address-free rendering of values for logs and snapshots."""
import math


class Opaque:
    """An arbitrary object with a deterministic repr (never contains an address)."""

    def __init__(self, n=0):
        self.n = n

    def __repr__(self):
        return "<Opaque %d>" % self.n

    def __eq__(self, other):
        return isinstance(other, Opaque) and other.n == self.n

    def __hash__(self):
        return hash(("Opaque", self.n))


class IndexObj:
    """An object that is not an int but implements __index__ (valid list index)."""

    def __init__(self, n):
        self.n = n

    def __index__(self):
        return self.n

    def __repr__(self):
        return "<IndexObj %d>" % self.n


class MapObj:
    """A non-dict mapping (has keys() and __getitem__)."""

    def __init__(self, pairs):
        self.pairs = list(pairs)

    def keys(self):
        return [k for k, _ in self.pairs]

    def __getitem__(self, key):
        for k, v in self.pairs:
            if k == key:
                return v
        raise KeyError(key)

    def __repr__(self):
        return "<MapObj %r>" % (self.pairs,)


def enc(v):
    if v is None or isinstance(v, (bool, str)):
        return v
    if isinstance(v, int):
        return v
    if isinstance(v, float):
        if math.isnan(v):
            return {"$f": "nan"}
        if math.isinf(v):
            return {"$f": "inf" if v > 0 else "-inf"}
        if v == 0 and math.copysign(1, v) < 0:
            return {"$f": "-0.0"}
        return v
    if isinstance(v, (bytes, bytearray)):
        return {"$b": bytes(v).hex()}
    if isinstance(v, tuple):
        return {"$t": [enc(x) for x in v]}
    if isinstance(v, list):
        return [enc(x) for x in v]
    if isinstance(v, (set, frozenset)):
        return {"$s": sorted((enc(x) for x in v), key=repr)}
    if isinstance(v, dict):
        if all(isinstance(k, str) and not k.startswith("$") for k in v):
            return {k: enc(x) for k, x in v.items()}
        return {"$d": [[enc(k), enc(x)] for k, x in v.items()]}
    if isinstance(v, Opaque):
        return {"$o": v.n}
    if isinstance(v, IndexObj):
        return {"$ix": v.n}
    if isinstance(v, MapObj):
        return {"$m": [[enc(k), enc(x)] for k, x in v.pairs]}
    raise TypeError("cannot encode %r" % (type(v),))


def dec(v):
    if isinstance(v, list):
        return [dec(x) for x in v]
    if isinstance(v, dict):
        if len(v) == 1:
            (k, x), = v.items()
            if k == "$f":
                return float(x)
            if k == "$b":
                return bytes.fromhex(x)
            if k == "$t":
                return tuple(dec(i) for i in x)
            if k == "$s":
                return set(dec(i) for i in x)
            if k == "$d":
                return {_hashable(dec(a)): dec(b) for a, b in x}
            if k == "$o":
                return Opaque(x)
            if k == "$ix":
                return IndexObj(x)
            if k == "$m":
                return MapObj([(dec(a), dec(b)) for a, b in x])
            if k == "$it":
                return iter([dec(i) for i in x])
            if k == "$gen":
                return (i for i in [dec(i) for i in x])
        return {k: dec(x) for k, x in v.items()}
    return v


def _hashable(v):
    if isinstance(v, list):
        return tuple(_hashable(x) for x in v)
    return v


def canon(v, depth=0):
    """Type-exact, address-free, NaN/-0.0-aware canonical form of a plain value (no Config objects;
    sim.snapshot handles those).  Dict items keep insertion order (callers sort when order is not
    part of the claim)."""
    if depth > 12:
        return ("deep",)
    if v is None:
        return None
    t = type(v)
    if t is bool:
        return ("bool", v)
    if t is int:
        return ("int", v)
    if t is float:
        return ("float", repr(v))
    if t is str:
        return ("str", v)
    if t is bytes:
        return ("bytes", v.hex())
    if isinstance(v, tuple) and hasattr(v, "_fields"):
        if t.__name__ == "DigestValue":
            return ("digest", v.salt.hex() if isinstance(v.salt, bytes) else repr(v.salt),
                    v.digest.hex() if isinstance(v.digest, bytes) else repr(v.digest),
                    getattr(v.algorithm, "__name__", str(v.algorithm)))
        return (t.__name__,) + tuple(canon(x, depth + 1) for x in v)
    if isinstance(v, list):
        return ("list:" + t.__name__, [canon(x, depth + 1) for x in v])
    if isinstance(v, tuple):
        return ("tuple", [canon(x, depth + 1) for x in v])
    if isinstance(v, dict):
        return ("dict:" + t.__name__, [(canon(k, depth + 1), canon(x, depth + 1)) for k, x in v.items()])
    if isinstance(v, (set, frozenset)):
        return ("set", sorted((canon(x, depth + 1) for x in v), key=repr))
    if isinstance(v, (int, float, str, bytes)):
        return (t.__name__ + "<:" + t.__mro__[1].__name__, repr(v))
    if isinstance(v, (Opaque, IndexObj, MapObj)):
        return ("obj", repr(v))
    if callable(v):
        return ("callable", getattr(v, "__name__", t.__name__))
    return ("obj", t.__name__)
