"""Seeded value generation per field spec: candidate pools (valid-looking, boundary, invalid, wrongly
typed) filtered through the reference model to obtain a value of the wanted class."""
from . import model
from .codec import Opaque
from .model import OK, REJ

DNS_TABLE = {"localhost": "127.0.0.1", "example.com": "93.184.216.34", "web1": "10.0.0.5", "db.internal": "10.0.0.6"}
FS_FILES = {"/data/a.txt": b"A", "/data/sub/b.txt": b"B", "/home/sim/c.txt": b"C", "/work/rel.txt": b"R",
            "/work/sub/d.txt": b"D"}
FS_DIRS = ["/data", "/data/sub", "/data/dir", "/work/sub", "/inc"]

STRS = ["", "a", "ab", "abc", "AB", "Ab", " ab ", "x y", "Zed", "zz", "9", "hello", "abx", "aaaaaaaa", "aaaaaaaaa",
        "\u00e9t\u00e9", "stra\u00dfe", "\u0130x", "\t", "-_ab_-", ".ab.", "ab\n", "0", "true", "Z", "abcdefghabcdefgh",
        "a b", "<&>", "key: v", "'q'", "\"dq\"", "A1", "low", "HIGH", "dev", "Prod ", "one", "DEBUG", " info", "Production",
        "development", "b", "c", "high", "two", "three", "prod", "warning",
        "a\x85b", "l\u2028s", "p\u2029s", "nb\u00a0sp", "\ufeffbom", "del\x7f", "\U0001f600"]
INTS = [-6, -5, -1, 0, 1, 2, 3, 4, 5, 6, 9, 10, 11, 13, 14, 15, 80, 100, 1023, 1024, 1025, 1029, 65535, 65536, 70000, 71024,
        2 ** 31, 2 ** 63 - 1, 2 ** 63, 10 ** 30, "5", " 5 ", "-5", "0x10", "5.0", "1e2", "", "ten", 5.0, 5.9, -0.0,
        float("nan"), float("inf"), True, "10", "1024", "3"]
FLOATS = [-2.0, -1.5, -1.0, 0.0, -0.0, 0.25, 0.5, 0.75, 1.0, 2.0, 2.5, 10.0, 12.0, 12.5, 1e308, 5, 0, "0.25", "1e1", " 2.5",
          0.1 + 0.2, 1 / 3, 4.35 * 100, 1e22, 5e-324, 2.0 ** -30, 123456789.12345678, "0.30000000000000004",
          "nan", "inf", "-inf", "abc", "", float("nan"), float("inf"), 10 ** 400, False, "2", "0.5"]
BOOLS = [True, False, 0, 1, 2, -1, 0.0, 1.5, "true", "TRUE", "Yes", "off", "n", " on", "2", "maybe", "", "T", "F", "y", "NO"]
ADDRS = ["1.2.3.4", "0.0.0.0", "255.255.255.255", "10.0.0.1", "256.1.1.1", "1.2.3", "01.2.3.4", " 1.2.3.4", "1.2.3.4 ",
         "a.b.c.d", 16909060, "127.0.0.1", "", "1.2.3.4.5", "192.168.0.1", "::1", "fe80::1", "::ffff:10.0.0.1"]
NETS = ["10.0.0.0/8", "192.168.1.0/24", "192.168.1.1/24", "0.0.0.0/0", "1.2.3.4/32", "1.2.3.4", "10.0.0.0/255.0.0.0",
        "10.0.0.0/33", "172.16.0.0/12", "172.16.0.0/16", "10.0.0.0/30", "10.0.0.0/31", "", "net", "10.0.0.0/-1",
        "10.1.0.0/16", "128.0.0.0/1", "10.0.0.4/30", "10.0.0.0/24", "2001:db8::/32", "::1"]
HOSTS = ["localhost", "example.com", "a", "ab", "-ab", "a_b", "host.name.", "1.2.3.4", "no such host", "x" * 16, "x" * 15,
         "web1", "db.internal", "\u00e9.com", "", "nope.invalid", "Web1", "01.2.3.4", "my-host", "h!", "a.b"]
FILES = ["a.txt", "/data/a.txt", "/data", "sub/b.txt", "~/c.txt", "/nope/x", "", "../data/a.txt", "dir", "/data/dir",
         "rel.txt", "sub", "sub/d.txt", "/data/new.txt", "new.txt", "/data/sub/b.txt", "./a.txt", "c.txt", "/inc"]
URLS = ["http://a.b", "https://x/y?z=1", "ftp://h", "mailto:x", "//nohost", "noscheme", "http://[bad", "", "a:b",
        "HTTP://UP", " http://sp", "http://a b", "x://"]
BYTES = [b"", b"ab", b"\x00\xff", "text", "\u00e9", "\udc80", b"Z", "aGVsbG8=", b"\xde\xad\xbe\xef" * 3, 5, None]
SECRETS = ["s3cr3t!#1", "p\u00e4ss w\u00f6rd!", "hunter2!!", "x!y@z#", "tok!en~value", "pw!|one", "!!secret!!",
           "a-much-longer-secret!-that-exceeds-the-32-byte-key-length#0123456789", "user:pa!ss", "\u00e9!" * 25,
           "exactly-32-bytes-long-secret!!#32", "33-bytes-long-secret-value!!#0033x",
           "sixteen-bytes!16", "a-secret-of-exactly-thirty-two!#", "48-bytes:" + "x!" * 19 + "#", "\u00e9\u00e9!!" * 4 + "pad!"[:0] + "!!!!!!!!",
           "\u2003\u2002\u2003", "\u2003\t\u3000\u2003"]      # (blank to str.strip(), yet non-empty plaintexts; not bytes any document holds by chance)
CHALLENGES = ["pw!one", b"pw!two", "", "\u00fcn\u00ef!", "x!" * 20, b"\x00\xff!", "pw!one ", "Pw!one", 5, None, ["pw"], "user:pass", "root:toor!",
              ":"]
PLAIN = [None, True, False, 0, 7, -3, 2 ** 40, 1.5, -0.0, 0.1 + 0.2, [1 / 3, 1e22], "str", "", "x y", [], [1], [1, "two", None], {}, {"a": 1},
         [[1], {"b": [2]}], {"k": {"n": [1.5, None]}}, "\u00e9t\u00e9", "<&>", "key: v", "a\x85b", ["l\u2028s"], {"nel\x85": 1}]
WRONG = [None, True, 0, 7, -3, 2 ** 70, 1.5, float("inf"), float("nan"), "str", "", b"bytes", [], [1], (1, 2), {}, {"a": 1},
         [[1], {"b": [2]}], Opaque(1), {"method": "xor"}, ("t",), [None]]


def _pool(spec):
    k = spec["kind"]
    o = spec.get("o", {})
    if k in ("string", "loglevel", "appmode"):
        extra = list(o.get("choices") or []) + list(o.get("levels") or []) + list(o.get("modes") or [])
        extra += [c.upper() for c in extra] + [" " + c + " " for c in extra] + [c + "." for c in extra]
        if o.get("max_len") is not None:
            extra += ["a" * o["max_len"], "a" * (o["max_len"] + 1), "ab" * o["max_len"]]
        if o.get("min_len"):
            extra += ["a" * o["min_len"], "a" * (o["min_len"] - 1)]
        return STRS + extra
    if k in ("int", "port"):
        extra = []
        for b in ("min", "max"):
            if o.get(b) is not None:
                extra += [o[b] - 1, o[b], o[b] + 1, str(o[b]), float(o[b])]
        return INTS + extra
    if k == "float":
        extra = []
        for b in ("min", "max"):
            if o.get(b) is not None:
                extra += [o[b] - 0.5, o[b], o[b] + 0.5, str(o[b])]
        return FLOATS + extra
    if k in ("bool", "featureflag"):
        return BOOLS
    if k == "ipv4addr":
        return ADDRS
    if k == "ipv4net":
        return NETS
    if k == "hostname":
        return HOSTS
    if k in ("filename", "include"):
        return FILES
    if k == "url":
        return URLS
    if k == "bytes":
        return BYTES
    if k == "secure":
        return SECRETS
    if k == "challenge":
        return CHALLENGES
    return WRONG + STRS[:6] + INTS[:8]


def candidate(rng, spec, ctx, depth=0):
    k = spec["kind"]
    if k == "list":
        item = spec.get("item")
        r = rng.random()
        if r < 0.08:
            return rng.choice(["notalist", 5, None, {"a": 1}, Opaque(2)])
        n = rng.choice([0, 1, 1, 2, 3, 4])
        if item is None or item["kind"] == "any":
            xs = [rng.choice(PLAIN if getattr(ctx, "plain", False) else WRONG[1:15]) for _ in range(n)]
            if getattr(ctx, "plain", False):
                return xs
        elif item["kind"] in ("schema", "configtype"):
            xs = [{} for _ in range(n)]
        else:
            want = "valid" if rng.random() < 0.8 else "any"
            xs = [gen_value(rng, item, want, ctx, depth + 1) for _ in range(n)]
        return tuple(xs) if rng.random() < 0.2 else xs
    if k == "dict":
        r = rng.random()
        if r < 0.08:
            return rng.choice(["notadict", 5, [("a", 1)], Opaque(3)])
        n = rng.choice([0, 1, 1, 2, 3])
        kf, vf = spec.get("kf"), spec.get("vf")
        out = {}
        for _ in range(n):
            want = "valid" if rng.random() < 0.85 else "any"
            kk = gen_value(rng, kf, want, ctx, depth + 1) if kf else rng.choice(["k1", "k2", "k3", "a", 5, "k1", "k2", ("eu",), ("a", 1), ()])
            if getattr(ctx, "plain", False) and not kf:
                kk = rng.choice(["k1", "k2", "k3", "a", "key x"])
            vv = gen_value(rng, vf, want, ctx, depth + 1) if vf else rng.choice(PLAIN if getattr(ctx, "plain", False) else WRONG[1:15])
            if kk is None and kf:
                continue          # a typed dict's key is never None (no text form in any format)
            try:
                out[kk] = vv
            except TypeError:
                pass
        return out
    if getattr(ctx, "plain", False):
        if k == "any":
            return rng.choice(PLAIN)
        return rng.choice(_pool(spec))
    if rng.random() < 0.12:
        return rng.choice(WRONG)
    return rng.choice(_pool(spec))


def gen_value(rng, spec, want, ctx, depth=0):
    """want: 'valid' (model says OK), 'invalid' (model says REJ), 'any' (whatever comes).  Falls back
    to whatever the last candidate was when the wanted class is not hit in 40 draws."""
    c = None
    for _ in range(40):
        c = candidate(rng, spec, ctx, depth)
        if want == "any":
            return c
        r = model.norm(spec, c, ctx)
        if want == "valid" and isinstance(r, OK) and c is not None:
            return c
        if want == "invalid" and r == REJ:
            return c
    return c


def gen_normal(rng, spec, ctx):
    """A value in *normal form* (what the field itself would store), for declared defaults: the
    library stores defaults without validating them, and C01's quantifier requires valid defaults.
    -> (found, value)"""
    for _ in range(40):
        c = candidate(rng, spec, ctx)
        if c is None:
            continue
        r = model.norm(spec, c, ctx)
        if not isinstance(r, OK):
            continue
        v = r.v
        if isinstance(v, model.Digest):
            return True, c if isinstance(c, str) else c.decode("utf-8", "replace")
        # a normal form must be a fixed point of the field's own validation (typed list/dict defaults
        # are re-validated item by item when a configuration is built)
        if not isinstance(v, (model.TList, model.TDict)):
            r2 = model.norm(spec, v, ctx)
            if not isinstance(r2, OK) or not model.matches(r2.v, v):
                continue
        if isinstance(v, (model.TList,)):
            items = []
            ok = True
            for x in v.items:
                if isinstance(x, (model.Digest, model.TList, model.TDict)):
                    ok = False
                    break
                r2 = model.norm(spec["item"], x, ctx)
                if not isinstance(r2, OK) or not model.matches(r2.v, x):
                    ok = False
                    break
                items.append(x)
            if ok:
                return True, items
            continue
        if isinstance(v, model.TDict):
            if any(isinstance(b, (model.Digest, model.TList, model.TDict)) for _, b in v.pairs):
                continue
            kf = spec.get("kf") or {"kind": "any", "o": {}}
            vf = spec.get("vf") or {"kind": "any", "o": {}}
            stable = True
            for a, b in v.pairs:
                ra, rb = model.norm(kf, a, ctx), model.norm(vf, b, ctx)
                if not (isinstance(ra, OK) and isinstance(rb, OK) and model.matches(ra.v, a) and model.matches(rb.v, b)):
                    stable = False
            if not stable:
                continue
            return True, dict(v.pairs)
        if isinstance(v, tuple):
            v = list(v)
        if isinstance(v, float) and v != v:
            continue
        if isinstance(v, int) and not isinstance(v, bool) and v == 13:
            continue    # the harness' schema validator 'pred' refuses 13: a declared default must be valid
        return True, v
    return False, None


class Ctx:
    """What the model needs to know about the platform."""

    def __init__(self, world, plain=False):
        self.world = world
        self.dns_failing = False
        self.plain = plain   # only plain (JSON-like) data for untyped fields: persistence scenarios


def seed_world(world):
    """Files, directories and DNS answers the filename/hostname pools refer to."""
    for p, b in FS_FILES.items():
        world.poke(p, b)
    for d in FS_DIRS:
        world.dirs.add(d)
    world.dns.update(DNS_TABLE)


def all_leaf_nodes(sd):
    """Every leaf node of the descriptor, including those of config types and shared item schemas."""
    def rec(node):
        for f in node["fields"]:
            if f["kind"] == "schema":
                yield from rec(f)
            elif f["kind"] != "configtype":
                yield f
    yield from rec(sd["root"])
    for t in sd.get("types", {}).values():
        yield from rec(t["schema"])
    for s in sd.get("shared", {}).values():
        yield from rec(s)


RAW_DEFAULT_KINDS = ("string", "int", "float", "port", "bool", "loglevel", "appmode", "ipv4addr", "ipv4net", "url", "bytes", "filename")


def add_defaults(rng, sd, gcfg, ctx):
    from .codec import enc
    for node in all_leaf_nodes(sd):
        if node["kind"] in ("virtual", "method", "featureflag", "include"):
            continue
        if rng.random() < gcfg.p_default:
            found, v = gen_normal(rng, node, ctx)
            if not found:
                continue
            if getattr(gcfg, "p_raw_default", 0.0) and rng.random() < gcfg.p_raw_default and node["kind"] in RAW_DEFAULT_KINDS:
                # a declared default that is valid but not in the form its own validation produces ("INFO", "8080",
                # padded text): a fresh configuration exposes it as declared
                from . import model
                from .codec import canon
                for _ in range(4):
                    raw = gen_value(rng, node, "valid", ctx)
                    r = model.norm(node, raw, ctx)
                    if raw is not None and isinstance(r, model.OK) and canon(r.v) != canon(raw) and not (isinstance(raw, int) and raw == 13):
                        v = raw
                        break
            d = enc(v)
            if rng.random() < gcfg.p_callable:
                d = {"$call": d}
            node["o"]["default"] = d
