"""C06 = rejected operations of the `state` scenario + failing include loads of the `includes` scenario."""
from ..engine import MultiScenario
from . import includes, state

SCENARIO = MultiScenario("C06", [(0.8, state.C06), (0.2, includes.C06)])
