"""C06 = rejected operations of the `state` scenario + failing include loads of the `includes` scenario + rejected
assignments on configurations older than parts of their schema (`growth`)."""
from ..engine import MultiScenario
from . import growth, includes, state

SCENARIO = MultiScenario("C06", [(0.75, state.C06), (0.19, includes.C06), (0.06, growth.SCENARIOS["C06"])])
