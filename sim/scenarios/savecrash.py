"""C19 -- a failed save never damages the file on disk; a successful one loads back.

Fault enumeration: for a sampled reachable state and a destination that already holds a previous
successful save P, a fault-free dry run on a clone of the world counts every step serialisation goes
through (each field encoding, each key-file open, each encryption, the formatter); then the save is
re-executed once per step with that step failing, plus the natural failures (unknown format, bad
formatter option, unusable key file, value outside the format's domain).  After each failing save the
destination must hold P byte for byte and must never have been opened for writing.
"""
from cincoconfig.core import ConfigFormat, Field
from cincoconfig.encryption import KeyFile

from .. import ops, schema, seams, values
from ..codec import Opaque, canon
from ..engine import stream
from ..world import SeamGap
from .persist import PersistScenario, plain_only

EXCS = [ValueError, TypeError, RuntimeError, UnicodeError, KeyError, OverflowError]


class _Ctl:
    def __init__(self):
        self.enc_n = 0
        self.enc_fail = None
        self.encrypt_n = 0
        self.encrypt_fail = None
        self.exc = ValueError
        self.fmt_fail = False
        self.fmt_bytes = None
        self.fired = False


class SaveCrashScenario(PersistScenario):
    prop = "C19"
    name = "save-crash"
    max_ops = 16

    def __init__(self):
        super().__init__("C19")

    def gen_cfg(self, rng):
        g = super().gen_cfg(rng)
        if "secure" not in g.kinds and rng.random() < 0.6:
            g.kinds.append("secure")
        return g

    def weights(self, rng):
        return {"set": 5, "assign_sub": 1, "load_tree": 1, "lop": 2, "dop": 1, "dyn": 0.5, "save": 2.5, "crash_save": 3.5,
                "restart_load": 2.2}

    def header(self, seed, avoid):
        h = super().header(seed, avoid)
        h["max_ops"] = stream(seed, "c19").randint(4, self.max_ops)
        return h

    def gen_set(self, st, rng, cfg, tgts, cfgpaths, owners):
        if rng.random() < 0.12:
            # a value that is not JSON-like but that YAML and pickle write and read back (a tuple) in an untyped field
            anys = [t for t in tgts if t.node["kind"] == "any" and not t.node.get("validator") and not t.node.get("dynamic") and "[" not in t.path]
            if anys:
                from ..codec import enc
                return {"op": "set", "via": "attr", "path": rng.choice(anys).path, "v": enc(rng.choice([("t", 1), (1, (2, 3)), ()]))}
        return super().gen_set(st, rng, cfg, tgts, cfgpaths, owners)

    def gen_crash_save(self, st, rng, cfg, tgts, cfgpaths, owners):
        if st.docs and rng.random() < 0.85:
            d = rng.choice(st.docs)
            fname = d["file"]
        else:
            fname = rng.choice(["/data/c1.cfg", "out.cfg"])
        fmt = rng.choice(st.h["formats"])
        opts = {}
        if fmt == "yaml" and rng.random() < 0.3:
            opts["root_key"] = "CONFIG"
        if fmt == "xml" and rng.random() < 0.3:
            opts["root_tag"] = "cfg"
        return {"op": "crash_save", "file": fname, "fmt": fmt, "opts": opts, "seed": rng.randrange(1 << 30)}

    def apply(self, st, op, rec):
        if op["op"] == "crash_save":
            self.do_crash_save(st, st.cfgs[0], 0, op, rec)
            return
        super().apply(st, op, rec)

    # ------------------------------------------------------------------ instrumentation (harness side only)
    def instrument(self, st, ctl):
        undo = []
        for f in list(st.B.fields.values()):
            if not isinstance(f, Field) or "to_basic" in f.__dict__:
                continue
            orig = f.to_basic

            def tb(cfg, value, _orig=orig):
                ctl.enc_n += 1
                if ctl.enc_fail == ctl.enc_n:
                    ctl.fired = True
                    raise ctl.exc("injected encoder fault")
                return _orig(cfg, value)

            f.to_basic = tb
            undo.append(lambda _f=f: _f.__dict__.pop("to_basic", None))
        orig_enc = KeyFile.encrypt

        def enc(self_, text, method="best"):
            ctl.encrypt_n += 1
            if ctl.encrypt_fail == ctl.encrypt_n:
                ctl.fired = True
                raise ctl.exc("injected encryption fault")
            return orig_enc(self_, text, method=method)

        KeyFile.encrypt = enc
        undo.append(lambda: setattr(KeyFile, "encrypt", orig_enc))
        orig_get = ConfigFormat.get.__func__

        def get(cls, name, **kw):
            fm = orig_get(cls, name, **kw)
            real = fm.dumps

            def dumps(config, tree):
                if ctl.fmt_fail:
                    ctl.fired = True
                    raise ctl.exc("injected formatter fault")
                out = real(config, tree)
                ctl.fmt_bytes = out
                return out

            fm.dumps = dumps
            return fm

        ConfigFormat.get = classmethod(get)
        undo.append(lambda: setattr(ConfigFormat, "get", classmethod(orig_get)))
        return undo

    # ------------------------------------------------------------------ the enumeration
    def do_crash_save(self, st, cfg, c, op, rec):
        fmt, opts, fname = op["fmt"], op.get("opts", {}), op["file"]
        base = st.world
        dest = base.abspath(base.expanduser(fname))
        if not self.valid_state(st, cfg):
            rec.log("crash_save", "state-not-valid")
            return
        tree0, e0 = self._call(lambda: cfg.to_tree())
        if e0 is not None or plain_only(tree0) or not ops.in_format_domain(fmt, tree0):
            rec.log("crash_save", "out-of-domain")
            rec.probe("crash-save-skipped:out-of-domain")
            return
        P = base.peek(dest)
        rng = stream(op.get("seed", 0), "c19-faults")
        secrets = self.secrets_in(st, cfg)
        ctl = _Ctl()
        undo = self.instrument(st, ctl)
        results = []
        try:
            # ---- dry run on a clone: count the steps
            w = base.clone()
            seams.install(w)
            w.begin_step(base.step)
            _, err = self._call(lambda: cfg.save(fname, fmt, **opts))
            dry_journal = [e for e in w.journal[len(base.journal):]]
            n_enc, n_encrypt = ctl.enc_n, ctl.encrypt_n
            key_opens = [e for e in dry_journal if e[2] == "open" and e[4] == "rb" and e[3] != dest]
            if err is not None:
                # C19 does not promise that saving succeeds (C02 does): without a successful dry run there is no
                # serialisation to inject faults into
                rec.probe("fault-free-save-raised:" + type(err).__name__)
                rec.log("crash_save", fname, fmt, "dry-run-raised")
                return
            good = w.peek(dest)
            rec.check()
            if good != ctl.fmt_bytes:
                rec.fail("C19/success", "C19/file-differs-from-serialised-bytes/%s" % fmt,
                         "the destination holds %d bytes that differ from the %d bytes the formatter produced"
                         % (len(good or b""), len(ctl.fmt_bytes or b"")))
            rec.probe("dry-run-steps", n_enc + n_encrypt + len(key_opens) + 1)
            plans = []
            for k in range(1, n_enc + 1):
                plans.append(("encode", k))
            for k in range(1, n_encrypt + 1):
                plans.append(("encrypt", k))
            for k in range(1, len(key_opens) + 1):
                plans.append(("key-open", k))
            plans.append(("formatter", 1))
            plans.append(("write-phase", 1))
            plans += [("unknown-format", 0), ("bad-option", 0)]
            if secrets:
                plans += [("key-short", 0), ("key-unreadable", 0), ("key-dir-unwritable", 0)]
            if fmt in ("json", "bson", "xml"):
                plans.append(("out-of-domain-value", 0))
            for what, k in plans:
                self.one_faulted_save(st, cfg, base, dest, P, fname, fmt, opts, what, k, ctl, rng, rec, secrets, key_opens)
            rec.relevant += 1
        finally:
            for u in undo:
                u()
            seams.install(base)
            base.begin_step(base.step)
        rec.log("crash_save", fname, fmt, len(plans))
        rec.kind("%s:%d" % (fmt, min(len(plans), 40) // 5))

    def check_written_secrets(self, st, cfg, w, content, fmt, opts, secrets, rec, label):
        import base64
        from .. import refcrypto
        try:
            tree = ops.parse_doc(fmt, content, opts) if fmt != "xml" else self.parse_xml(content, opts)
        except Exception:  # noqa: BLE001
            return
        owners, nodes = self.cfg_nodes(st, cfg)
        rec.check()
        for path, opath, plain, node in secrets:
            slot = self.tree_at(tree, path)
            if not (isinstance(slot, dict) and "method" in slot and "ciphertext" in slot):
                continue
            try:
                ct = base64.b64decode(slot["ciphertext"], validate=True)
            except Exception:  # noqa: BLE001
                continue
            kname = self.key_for(st, cfg, opath, owners, nodes)
            key = w.peek(w.abspath(w.expanduser(kname)))
            got = None
            if key is not None and len(key) == 32:
                try:
                    got = refcrypto.xor(ct, key) if slot["method"] == "xor" else refcrypto.aes_cbc_decrypt(key, ct[:16], ct[16:])
                except Exception:  # noqa: BLE001
                    got = None
            if got != plain.encode():
                rec.fail("C19/success", "C19/successful-save-cannot-load-back/%s" % label,
                         "save(%s) returned normally under %s and replaced the destination, but %s does not decrypt with what the key "
                         "file %s holds (%s): no session can load this file back"
                         % (fmt, label, path, kname, "no key" if key is None else "%d bytes" % len(key)))
            rec.probe("returned-save-secrets-decrypt")

    def one_faulted_save(self, st, cfg, base, dest, P, fname, fmt, opts, what, k, ctl, rng, rec, secrets, key_opens):
        w = base.clone()
        seams.install(w)
        w.begin_step(base.step)
        ctl.enc_n = ctl.encrypt_n = 0
        ctl.enc_fail = ctl.encrypt_fail = None
        ctl.fmt_fail = False
        ctl.fired = False
        ctl.fmt_bytes = None
        ctl.exc = rng.choice(EXCS)
        use_fmt, use_opts = fmt, dict(opts)
        restore = None
        natural = False
        if what == "encode":
            ctl.enc_fail = k
        elif what == "encrypt":
            ctl.encrypt_fail = k
        elif what == "key-open":
            # the k-th key-file read of the dry run: the same file, the same occurrence; the file must exist, so that the
            # injected error is the only thing that differs from the dry run
            kpath = key_opens[k - 1][3]
            if w.peek(kpath) is None:
                rec.probe("fault-not-reached:key-open-fault")
                seams.install(base)
                return
            nth = sum(1 for e in key_opens[:k] if e[3] == kpath)
            w.armed.append({"seam": "open:r", "nth": nth, "errno": rng.choice(["EACCES", "EIO", "EMFILE"]), "kind": "open-err",
                            "path": kpath})
        elif what == "formatter":
            ctl.fmt_fail = True
        elif what == "write-phase":
            w.armed.append({"seam": "write", "nth": 1, "path": dest, "errno": rng.choice(["ENOSPC", "EIO"]), "arg": rng.randrange(0, 64),
                            "kind": "write-err"})
        elif what == "unknown-format":
            use_fmt, natural = "no-such-format", True
        elif what == "bad-option":
            use_opts, natural = dict(opts, no_such_option=1), True
        elif what in ("key-short", "key-unreadable", "key-dir-unwritable"):
            natural = True
            owners, nodes = self.cfg_nodes(st, cfg)
            kname = self.key_for(st, cfg, secrets[0][1], owners, nodes)
            kp = w.abspath(w.expanduser(kname))
            if what == "key-short":
                w.poke(kp, b"short")
            elif what == "key-unreadable":
                if w.peek(kp) is None:
                    w.poke(kp, b"k" * 32)
                w.unreadable.add(kp)
            else:
                w.unlink_quiet(kp)
                import posixpath
                w.unwritable.add(posixpath.dirname(kp))
        elif what == "out-of-domain-value":
            natural = True
            tgts, _, _ = ops.targets(st.sd, cfg)
            anys = [t for t in tgts if t.node["kind"] == "any" and not t.node.get("o", {}).get("required") and t.owner is not None
                    and not t.node.get("validator")]
            if not anys:
                seams.install(base)
                return
            t = anys[0]
            key = ops.split_last(t.path)[1]
            old = t.value
            if fmt == "xml":
                # not encodable at all / a character XML cannot carry / map keys that are not XML names
                bad = rng.choice([Opaque(7), "a\x0bb", "\x00", {"bad key": 1}, {"1x": "v"}, {"": 1}, ["ok", "\x1f"]])
            elif fmt == "bson":
                bad = rng.choice([2 ** 70, -(2 ** 70), Opaque(7)])
            else:
                bad = Opaque(7)
            setattr(t.owner, key, bad)
            odv_path, odv_value = t.path, bad
            restore = lambda: setattr(t.owner, key, old)  # noqa: E731
        j0 = len(w.journal)
        try:
            _, err = self._call(lambda: cfg.save(fname, use_fmt, **use_opts))
        finally:
            if restore:
                restore()
        after = w.peek(dest)
        journal = w.journal[j0:]
        if what == "write-phase":
            # serialisation succeeded; the fault hits while the destination is being written.  Observed only.
            if w.fired:
                base.fired.append((base.step, {"kind": "write-phase-fault", "seam": "write", "errno": ""}))
                rec.probe("observed:write-phase-fault:" + ("destination-damaged" if after != P else "destination-intact"))
            seams.install(base)
            return
        fired = ctl.fired or bool(w.fired) or natural
        label = what if natural else "%s-fault" % what
        if fired:
            base.fired.append((base.step, {"kind": label, "seam": what, "errno": ctl.exc.__name__ if not natural else ""}))
            rec.probe("faulted-save:" + label)
            rec.check()
            opened = [e for e in journal if e[3] == dest and e[2] in ("open", "create", "truncate", "write", "replace", "remove")
                      and not (e[2] == "open" and e[4] in ("rb", "r"))]
            if err is None and what != "out-of-domain-value":
                # the statement protects the destination *if serialisation fails*: this save returned normally (the library
                # found another way: a cached key, an option it ignores...), so the premise does not hold.  The other half then
                # applies: what a successful save wrote must load back -- for which every secret in it has to decrypt with the
                # key its configuration's key file holds on disk now (a key nobody can find again cannot be loaded back)
                rec.probe("faulted-save-returned-normally:" + label)
                if secrets and after is not None and after != P:
                    self.check_written_secrets(st, cfg, w, after, use_fmt, use_opts, secrets, rec, label)
            elif what == "out-of-domain-value" and err is None and after != P and secrets:
                rec.probe("out-of-domain-value-saved:with-secrets")      # loading it back needs this session's key-file layout: no claim
            elif what == "out-of-domain-value" and err is None and after != P:
                # the save went through: then what it wrote must load back (the other half of the statement)
                kw = {"key_filename": st.h["root_key"]} if st.h.get("root_key") else {}
                fresh = st.B.root(**kw)
                _, lerr = self._call(lambda: fresh.load(fname, use_fmt) if not use_opts else fresh.loads(after, use_fmt, **{k: v for k, v in use_opts.items() if k != "pretty"}))
                if lerr is not None:
                    rec.fail("C19/success", "C19/successful-save-does-not-load-back/%s" % fmt,
                             "save(%s) of a value outside the format's domain returned normally and replaced the destination by a document that does not load: %r" % (fmt, lerr))
                else:
                    back, _ = self._call(lambda: ops.resolve(fresh, odv_path))
                    if canon(back) != canon(odv_value):
                        rec.fail("C19/success", "C19/successful-save-loads-back-different/%s" % fmt,
                                 "save(%s) accepted %r for %s; loading the file back gives %r (not an equal configuration)" % (fmt, canon(odv_value), odv_path, canon(back)))
                rec.probe("out-of-domain-value-saved-and-loads")
            elif after != P:
                rec.fail("C19/untouched", "C19/destination-damaged/%s/%s" % (label, "truncated" if (after is not None and P and not after) else "changed"),
                         "save(%s) with a failing step (%s #%d: %s) left %s bytes at the destination; it held %s bytes before"
                         % (fmt, what, k, "raised " + type(err).__name__ if err else "returned normally",
                            None if after is None else len(after), None if P is None else len(P)))
            if opened:
                rec.probe("destination-opened-during-failing-save")     # its bytes are what the statement protects
            if err is None:
                rec.probe("faulted-save-returned-normally:" + label)
        else:
            rec.probe("fault-not-reached:" + label)
        seams.install(base)


SCENARIO = SaveCrashScenario()
