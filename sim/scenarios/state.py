"""The `state` scenario: histories over every mutation route of a configuration, judged step by step.

Serves C01 (values always satisfy their field; read-back; frame), C06 (a rejected operation changes
nothing), C12 (defaults / user-defined / reset) and C15 (every rejection is a ValidationError naming
the full path).  Which oracles are active depends on the property the scenario instance was created
for; the workload profile is biased accordingly.  All expectations are computed at execution time.
"""
import re

from cincoconfig.core import Config, ValidationError
from cincoconfig.support import is_value_defined, reset_value

from .. import model, ops, schema, snapshot, values
from ..codec import canon, dec, enc
from ..engine import Scenario, stream
from ..model import OK, REJ, UNSPEC
from ..world import SeamGap

SINGLE_LIST_OPS = ("append", "insert", "setitem")
SINGLE_DICT_OPS = ("setitem", "setdefault")


def flags_of(s, prefix=""):
    """{path: user-defined flag} of a snapshot (values ignored; replaced list items count by position)."""
    out = {}
    if isinstance(s, tuple) and s and s[0] == "cfg":
        for key, val, flag in s[3]:
            p = (prefix + "." if prefix else "") + str(key)
            out[p] = flag
            out.update(flags_of(val, p))
    elif isinstance(s, tuple) and len(s) == 2 and isinstance(s[1], list) and str(s[0]).startswith("list"):
        for i, x in enumerate(s[1]):
            out.update(flags_of(x, "%s[%d]" % (prefix, i)))
    return out


def path_shape(path):
    return re.sub(r"\d+", "i", re.sub(r"[A-Za-z_][A-Za-z_0-9]*", "k", path))


class St:
    pass


class StateScenario(Scenario):
    name = "state"
    max_ops = 30

    def __init__(self, prop):
        self.prop = prop

    # =========================================================================== header
    def gen_cfg(self, rng):
        over = {}
        if self.prop == "C06":
            over = {"p_validator": rng.choice([0.15, 0.3, 0.5]), "schema_validators": rng.choice([0.0, 0.3, 0.6]),
                    "p_list_schema": rng.choice([0.15, 0.3, 0.5])}
        if self.prop == "C12":
            over = {"p_default": rng.choice([0.6, 0.9]), "p_callable": rng.choice([0.3, 0.6]), "p_raw_default": rng.choice([0.0, 0.3, 0.6])}
        if self.prop == "C15":
            over = {"p_name": rng.choice([0.0, 0.3, 0.6]), "p_list_schema": rng.choice([0.15, 0.3, 0.5]),
                    "depth": rng.choice([1, 2, 2, 3]), "schema_validators": rng.choice([0.0, 0.3, 0.6])}
        return schema.GenCfg(rng, **over)

    def weights(self, rng):
        w = {"set": 6, "assign_sub": 2, "load_tree": 2, "loads": 1.5, "loads_bad": 0.5, "reset": 1.5, "lop": 3, "dop": 2,
             "ctor": 0.7, "dyn": 0.7, "load_bad": 0.3, "set_from": 0.8, "render": 0.4, "cmdline": 0.6 if self.prop == "C01" else 0}
        if self.prop == "C06":
            w.update({"loads_bad": 2.5, "load_bad": 1.0, "assign_sub": 3, "lop": 5})
        if self.prop == "C12":
            w.update({"reset": 4, "ctor": 1.5, "lop": 1.5, "dop": 1})
        if self.prop == "C15":
            w.update({"load_tree": 4, "loads": 4, "assign_sub": 3, "ctor": 1.5, "lop": 1.5, "dop": 1, "reset": 0.3, "item_history": 0.8})
        # swarm: drop a random subset of operation kinds in this run
        for k in list(w):
            if rng.random() < 0.15:
                w[k] = 0
        if not any(w.values()):
            w["set"] = 1
        return w

    def header(self, seed, avoid):
        rng = stream(seed, "swarm")
        from ..world import World
        w = World(seed)
        values.seed_world(w)
        ctx = values.Ctx(w)
        g = self.gen_cfg(rng)
        srng = stream(seed, "schema")
        sd = schema.gen_header_schema(srng, g, w)
        values.add_defaults(srng, sd, g, ctx)
        if self.prop == "C15":
            # C15 is about rejected *values*.  A required field that has no usable default makes every
            # load fail in validate() with an error naming that field (C11's business) before or instead
            # of the rejected value, so the expected path would be ambiguous: not generated here.
            from ..codec import dec as _dec
            for node in values.all_leaf_nodes(sd):
                o = node.get("o", {})
                if o.get("required"):
                    d = o.get("default")
                    if isinstance(d, dict) and "$call" in d:
                        d = d["$call"]
                    if "default" not in o or not _dec(d):
                        del o["required"]
        if self.prop in ("C01", "C06", "C12", "C15", "C13"):
            # environment naming switched on for the whole schema (or single fields) while no variable is set: fields then
            # behave as if no binding existed, but the library takes its environment-aware paths
            erng = stream(seed, "env-naming")
            if erng.random() < 0.25:
                sd["root"]["env"] = erng.choice([True, "APP"])
            elif erng.random() < 0.2:
                def plain_leaves(node):      # nested schemas only (config types and item schemas are shared objects)
                    for f in node["fields"]:
                        if f["kind"] == "schema":
                            yield from plain_leaves(f)
                        elif f["kind"] not in ("virtual", "method", "configtype"):
                            yield f
                for i, node in enumerate(plain_leaves(sd["root"])):
                    if erng.random() < 0.4:
                        node.setdefault("o", {})["env"] = "SIMVAR_%d" % i
        if self.prop == "C06":
            # item schemas / config types that can reject an item *as a whole* although each of its values is acceptable:
            # a schema validator that refuses the integer 13, or a required field without a default
            irng = stream(seed, "c06-items")
            for name, node in sorted(list(sd.get("shared", {}).items()) + [(n, t["schema"]) for n, t in sd.get("types", {}).items()]):
                if irng.random() < 0.5:
                    keys = {f["key"] for f in node["fields"]}
                    if not any(f["kind"] == "int" and not f.get("validator") and not f.get("o", {}).get("min") for f in node["fields"]) and "iv" not in keys:
                        node["fields"].append({"kind": "int", "key": "iv", "o": {}})
                    node["validators"] = ["pred"]
                elif irng.random() < 0.4 and "rq" not in {f["key"] for f in node["fields"]}:
                    node["fields"].append({"kind": "string", "key": "rq", "o": {"required": True}})
        env = {}
        if self.prop in ("C01", "C12", "C13", "C15") and stream(seed, "empty-env").random() < 0.5:
            # variables that are defined but empty: still "as if no binding existed"
            from .environment import env_names
            ern = stream(seed, "empty-env-names")
            env = {name: "" for name in sorted(set(env_names(sd).values())) if ern.random() < 0.6}
        if self.prop == "C06" and stream(seed, "c06-env").random() < 0.6:
            # C06 is conditional on the operation raising, so the variables may as well be set: bound fields then start from
            # their variables and loads leave them alone
            from .environment import valid_env
            env = valid_env(sd, stream(seed, "c06-env-values"), ctx, 0.6)
        p_inv = {"C01": 0.35, "C06": 0.6, "C12": 0.3, "C15": 0.7}.get(self.prop, 0.4)
        return {"env": env, "sd": sd, "ncfg": rng.choice([1, 1, 2]), "weights": self.weights(rng),
                "p_invalid": rng.choice([p_inv, p_inv, 0.15]), "p_fault": rng.choice([0.0, 0.1, 0.3]),
                "max_ops": rng.randint(5, self.max_ops), "avoid": sorted(avoid)}

    # =========================================================================== session
    def start(self, header, world, rec):
        st = St()
        st.world = world
        st.h = header
        st.sd = header["sd"]
        values.seed_world(world)
        st.ctx = values.Ctx(world)
        world.env.update(header.get("env") or {})
        st.B = schema.build(st.sd)
        st.serials = snapshot.Serials()
        st.cfgs = []
        for _ in range(header["ncfg"]):
            calls0 = dict(st.B.calls)
            cfg = st.B.root()
            st.cfgs.append(cfg)
            self.check_fresh(st, cfg, st.sd["root"], "", rec, calls0, "construct")
            self.check_holds(st, cfg, rec, "construct")
        st.docs = []
        return st

    # =========================================================================== oracles shared by all ops
    def check_holds(self, st, cfg, rec, route):
        """C01 invariant: every readable value is unset or satisfies its field."""
        if self.prop != "C01":
            return
        bad = []

        def visit(path, node, value):
            rec.check()
            if value is schema.MISSING:
                bad.append((path, node, "missing"))
                return
            if schema.is_cfg_node(node):
                if not isinstance(value, Config):
                    bad.append((path, node, "not-a-config:%s" % type(value).__name__))
                return
            if node["kind"] in ("virtual", "method"):
                return
            h = model.holds(node, value, st.ctx)
            if h is False:
                bad.append((path, node, value))

        schema.walk(st.sd, cfg, visit)
        if bad:
            path, node, value = bad[0]
            rec.fail("C01/holds", "C01/invalid-value-held/%s/%s" % (route, node["kind"] + ("-item:" + node["item"]["kind"] if node.get("item") else "")),
                     "after %s: field %s (%s %r) holds %r which violates its declared constraints"
                     % (route, path, node["kind"], node.get("o"), value if value == "missing" else canon(value)))

    def check_fresh(self, st, cfg, snode, prefix, rec, calls0, route):
        """C12: a freshly built (sub)configuration exposes every declared default, nothing user-defined,
        callable defaults evaluated during this construction."""
        if self.prop != "C12":
            return
        B = st.B
        for f in snode["fields"]:
            p = prefix + f["key"]
            if f["kind"] in ("virtual", "method"):
                continue
            rec.check()
            try:
                flag = is_value_defined(cfg, f["key"])
            except Exception as exc:  # noqa: BLE001
                rec.fail("C12/fresh", "C12/is-defined-raises/%s" % type(exc).__name__, "is_value_defined(%s) raised %r" % (p, exc))
            if flag:
                rec.fail("C12/fresh", "C12/fresh-field-user-defined/%s/%s" % (route, f["kind"]),
                         "%s: field %s of a fresh configuration reports user-defined" % (route, p))
            value = getattr(cfg, f["key"])
            if schema.is_cfg_node(f):
                if not isinstance(value, Config):
                    rec.fail("C12/fresh", "C12/fresh-subconfig-missing", "%s is %r" % (p, value))
                self.check_fresh(st, value, schema.sub_schema_node(st.sd, f), p + ".", rec, calls0, route)
                continue
            exp = ops.default_expect(f)
            if exp is ops.NOCHECK:
                continue
            if not ops.matches(exp, value):
                rec.fail("C12/fresh", "C12/default-not-exposed/%s/%s" % (route, f["kind"]),
                         "%s: field %s exposes %r, declared default is %r" % (route, p, canon(value), exp))
            d = f.get("o", {}).get("default")
            if isinstance(d, dict) and "$call" in d and calls0 is not None:
                tag = self.tag_of(st, p)
                if tag is not None and B.calls.get(tag, 0) <= calls0.get(tag, 0):
                    rec.fail("C12/fresh", "C12/callable-default-not-evaluated/%s" % route,
                             "%s: callable default of %s was not invoked for this configuration" % (route, p))
                rec.probe("callable-default-evaluated")

    def tag_of(self, st, path):
        """Harness tag of the field object behind a live path (root paths only: 'a.b.c')."""
        if "[" in path:
            return None
        return path if path in st.B.fields else None

    def check_rejection(self, st, rec, err, path, node, route, exact=True):
        """C15: the rejection is the library's ValidationError and names the full path."""
        if self.prop != "C15":
            return
        if node is not None and node["kind"] in ("virtual", "method"):
            return
        rec.check()
        rec.relevant += 1
        kind = node["kind"] if node else "?"
        if not isinstance(err, ValidationError):
            rec.fail("C15/type", "C15/wrong-exception/%s/%s/%s" % (route, kind, type(err).__name__),
                     "%s: value for %s (%s) rejected with %s: %s -- not the library's ValidationError"
                     % (route, path, kind, type(err).__name__, err))
        if not exact or path is None:
            rec.probe("rejection:type-only")
            return
        rec.probe("rejection:path-checked")
        try:
            got = err.ref_path
            text = str(err)
        except Exception as exc:  # noqa: BLE001
            rec.fail("C15/path", "C15/error-rendering-raises/%s/%s" % (route, type(exc).__name__),
                     "%s: rendering the ValidationError for %s raised %r" % (route, path, exc))
        if got != path:
            rec.fail("C15/path", "C15/wrong-path/%s/%s/%s" % (route, kind, path_shape(path) + "=>" + path_shape(got or "")),
                     "%s: rejection of %s reported ref_path %r" % (route, path, got))
        name = (node or {}).get("o", {}).get("name")
        want = path + (" (%s)" % name if name else "")
        if not text.startswith(want):
            rec.fail("C15/path", "C15/message-lacks-path/%s/%s" % (route, kind),
                     "%s: str(error) %r does not start with %r" % (route, text[:80], want))

    def check_unchanged(self, st, rec, s0, cfg, route, what):
        """C06: a rejected operation of the listed kinds leaves the configuration exactly as it was.
        C12: a rejected assignment never changes which fields count as user-defined."""
        if self.prop == "C12" and route.startswith(("set-", "assign-")):
            rec.check()
            rec.relevant += 1
            f0, f1 = flags_of(s0), flags_of(snapshot.snap(cfg, st.serials))
            if f0 != f1:
                changed = sorted(set(f0.items()) ^ set(f1.items()))[:3]
                rec.fail("C12/rejected", "C12/rejected-assignment-changed-user-defined-status/%s/%s" % (route, what),
                         "rejected %s (%s) changed the user-defined status of %r" % (route, what, changed))
            return
        if self.prop != "C06":
            return
        rec.check()
        rec.relevant += 1
        s1 = snapshot.snap(cfg, st.serials)
        if s1 != s0:
            d = snapshot.diff(s0, s1)
            rec.fail("C06/unchanged", "C06/changed-by-rejected/%s/%s" % (route, what),
                     "rejected %s (%s) changed the configuration at %s: %r -> %r" % (route, what, d[0], d[1], d[2]))

    def check_frame(self, st, rec, s0, cfg, path, route, what):
        """C01: an accepted assignment changes no other field.  C12: a reset touches no other field; any other operation
        changes the user-defined status of no field it does not assign or load."""
        if self.prop not in ("C01", "C12"):
            return
        if self.prop == "C01" and (route == "reset" or route.startswith(("list-", "dict-"))):
            return
        rec.check()
        s1 = snapshot.snap(cfg, st.serials)
        a, b = snapshot.strip_under(s0, path), snapshot.strip_under(s1, path)
        if self.prop == "C12" and route != "reset":
            fa, fb = flags_of(a), flags_of(b)
            bad = sorted(k for k in fa if k in fb and fa[k] != fb[k])
            if bad:
                rec.fail("C12/frame", "C12/other-field-user-defined-status-changed/%s/%s" % (route, what),
                         "accepted %s on %s changed the user-defined status of %s: %r -> %r" % (route, path, bad[0], fa[bad[0]], fb[bad[0]]))
            return
        if a != b:
            d = snapshot.diff(a, b)
            rec.fail("%s/frame" % self.prop, "%s/other-field-changed/%s/%s" % (self.prop, route, what),
                     "accepted %s on %s also changed %s: %r -> %r" % (route, path, d[0], d[1], d[2]))

    def check_defined(self, st, rec, owner, key, want, route, what):
        if self.prop != "C12":
            return
        rec.check()
        rec.relevant += 1
        got = is_value_defined(owner, key)
        if bool(got) != want:
            rec.fail("C12/defined", "C12/defined-flag/%s/%s/%s" % (route, what, "should-be-%s" % want),
                     "after %s, is_value_defined(%s) is %r, expected %r" % (route, key, got, want))

    def check_defined_by_path(self, st, cfg, rec, route):
        """C12: the user-defined status of a field is one fact: asking the root by the field's full dotted path and asking the
        owning configuration by the bare key give the same answer, at every depth."""
        if self.prop != "C12":
            return
        tgts, _, _ = ops.targets(st.sd, cfg)
        for t in tgts:
            if t.owner is None or "." not in t.path or "[" in t.path or "{" in t.path or t.node.get("dynamic") or t.node["kind"] in ("virtual", "method"):
                continue
            if t.value is schema.MISSING:
                continue
            key = ops.split_last(t.path)[1]
            rec.check()
            try:
                a, b = bool(is_value_defined(t.owner, key)), bool(is_value_defined(cfg, t.path))
            except SeamGap:
                raise
            except Exception:  # noqa: BLE001 - a level that cannot be traversed: nothing to compare
                continue
            if a != b:
                rec.fail("C12/defined", "C12/defined-flag-differs-by-spelling/depth%d" % min(t.path.count(".") + 1, 3),
                         "after %s, is_value_defined(root, %r) is %r but is_value_defined(<its configuration>, %r) is %r"
                         % (route, t.path, b, key, a))
            elif t.path.count(".") >= 2:
                rec.probe("defined-status-by-deep-dotted-path")

    # =========================================================================== generation
    def gen_op(self, st, rng):
        h = st.h
        c = rng.randrange(len(st.cfgs))
        cfg = st.cfgs[c]
        tgts, cfgpaths, owners = ops.targets(st.sd, cfg)
        names, ws = zip(*[(k, v) for k, v in h["weights"].items() if v > 0])
        for _ in range(8):
            kind = rng.choices(names, ws)[0]
            op = getattr(self, "gen_" + kind)(st, rng, cfg, tgts, cfgpaths, owners)
            if op is not None:
                op["cfg"] = c
                if rng.random() < h["p_fault"] and op["op"] in ("set", "assign_sub", "load_tree", "loads", "lop", "dop", "ctor", "validate", "insert_item"):
                    op["faults"] = [{"seam": "callback", "nth": rng.randint(1, 3), "kind": "callback-err",
                                     "exc": rng.choice(sorted(schema.EXC))}]
                if op["op"] == "set" and h["p_fault"] > 0 and rng.random() < 0.25:
                    t = next((t for t in tgts if t.path == op.get("path")), None)
                    if t is not None and t.node["kind"] == "hostname" and t.node.get("o", {}).get("resolve"):
                        # the resolver fails for this one call (transient DNS failure)
                        op.setdefault("faults", []).append({"seam": "dns", "nth": 1, "kind": "dns-err"})
                return op
        return {"op": "noop", "cfg": c}

    def _want(self, st, rng):
        return "invalid" if rng.random() < st.h["p_invalid"] else ("any" if rng.random() < 0.15 else "valid")

    def gen_set(self, st, rng, cfg, tgts, cfgpaths, owners):
        leaves = [t for t in tgts if not t.node.get("dynamic") and t.node["kind"] != "method"]
        if not leaves:
            return None
        t = rng.choice(leaves)
        if t.node["kind"] == "list" and t.node.get("item") and schema.is_cfg_node(t.node["item"]) and rng.random() < 0.8:
            return {"op": "set", "via": rng.choice(["attr", "item"]), "path": t.path, "v": self.gen_cfg_items(st, rng, t.node)}
        if schema.is_cfg_node(t.node):
            v = rng.choice(["scalar", 5, None, [1], 2.5, True]) if rng.random() < 0.7 else {}
        else:
            v = values.gen_value(rng, t.node, self._want(st, rng), st.ctx)
        return {"op": "set", "via": rng.choice(["attr", "item"]), "path": t.path, "v": enc(v)}

    def gen_cfg_items(self, st, rng, node):
        """A value for a list-of-configurations field: maps and ready-made configuration objects, possibly with
        exactly one offending item (a rejected leaf inside a map, or an item that only whole-item validation
        rejects: a value its schema validator refuses)."""
        inode = schema.sub_schema_node(st.sd, node["item"])
        n = rng.choice([0, 1, 2, 3])
        items = []
        for _ in range(n):
            items.append({"$tree": enc(ops.gen_tree(rng, st.sd, inode, st.ctx, p_key=rng.choice([0.3, 0.7]))), "as_config": rng.random() < 0.4})
        if items and rng.random() < st.h["p_invalid"]:
            i = rng.randrange(len(items))
            ints = [f for f in inode["fields"] if f["kind"] in ("int", "port") and not f.get("validator")]
            if "pred" in inode.get("validators", ()) and ints and rng.random() < 0.6:
                f = rng.choice(ints)
                if isinstance(model.norm(f, 13, st.ctx), OK):
                    tree = dec(items[i]["$tree"])
                    tree[f["key"]] = 13
                    items[i] = {"$tree": enc(tree), "as_config": rng.random() < 0.6}
            else:
                tree = dec(items[i]["$tree"])
                ops.poison_tree(rng, st.sd, inode, tree, st.ctx)
                items[i] = {"$tree": enc(tree), "as_config": False}
        return {"$items": items}

    def gen_set_from(self, st, rng, cfg, tgts, cfgpaths, owners):
        """Assign the live typed container held by one field to another field of the same kind (possibly of
        another configuration of the same schema)."""
        def leafy(t):
            n = t.node
            if n["kind"] == "list":
                return bool(n.get("item")) and not schema.is_cfg_node(n["item"]) and n["item"]["kind"] != "any"
            # values that are themselves plain mutable containers (untyped lists) would be shared by a shallow
            # copy exactly as with built-in dicts: the user wired the two configurations together, no claim
            return (n["kind"] == "dict" and bool(n.get("kf") or n.get("vf"))
                    and (n.get("vf") or {}).get("kind") not in ("list", "dict", "any") and (n.get("kf") or {}).get("kind") not in ("any",))
        dst = [t for t in tgts if leafy(t)]
        if not dst:
            return None
        d = rng.choice(dst)
        src_cfg = rng.randrange(len(st.cfgs))
        stg, _, _ = ops.targets(st.sd, st.cfgs[src_cfg])
        src = [t for t in stg if leafy(t) and t.node["kind"] == d.node["kind"] and type(t.value).__name__ in ("ListProxy", "DictProxy")]
        if not src:
            return None
        sp = rng.choice(src)
        same = [t for t in src if t.node is d.node and (t.path != d.path or src_cfg != st.cfgs.index(cfg))]
        if same and rng.random() < 0.6:
            sp = rng.choice(same)      # the very same field elsewhere in the tree (another list item, another use of a config type)
        return {"op": "set_from", "path": d.path, "src": sp.path, "src_cfg": src_cfg}

    def gen_item_history(self, st, rng, cfg, tgts, cfgpaths, owners):
        """C15: a list of configurations is copied / concatenated (results thrown away) and loses its first item; then a value is
        rejected for a field of the item that moved up: the error must name the item's index as it is now."""
        if self.prop != "C15":
            return None
        cands = []
        for t in tgts:
            if t.node["kind"] == "list" and t.node.get("item") and schema.is_cfg_node(t.node["item"]) and type(t.value).__name__ == "ListProxy" \
                    and len(t.value) >= 2 and "[" not in t.path:
                inode = schema.sub_schema_node(st.sd, t.node["item"])
                leaves = [f for f in inode["fields"] if not schema.is_cfg_node(f) and f["kind"] not in ("virtual", "method", "list", "dict", "any", "secure", "challenge")
                          and not f.get("validator")]
                if leaves:
                    cands.append((t, leaves))
        if not cands:
            return None
        t, leaves = rng.choice(cands)
        f = rng.choice(leaves)
        bad = values.gen_value(rng, f, "invalid", st.ctx)
        if model.norm(f, bad, st.ctx) != REJ:
            return None
        return {"op": "item_history", "path": t.path, "key": f["key"], "v": enc(bad), "drop": rng.choice(["pop0", "del0", "reverse"])}

    def do_item_history(self, st, cfg, c, op, rec):
        try:
            lst = ops.resolve(cfg, op["path"])
        except Exception:  # noqa: BLE001
            lst = None
        if type(lst).__name__ != "ListProxy" or len(lst) < 2:
            rec.log("item_history", "skip")
            return
        node = self.node_for(st, cfg, op["path"])
        inode = schema.sub_schema_node(st.sd, node["item"])
        f = next((x for x in inode["fields"] if x["key"] == op["key"]), None)
        if f is None:
            rec.log("item_history", "skip")
            return
        _, e1 = self._call(lambda: (lst.copy(), lst + []))
        if op["drop"] == "pop0":
            _, e2 = self._call(lambda: lst.pop(0))
        elif op["drop"] == "del0":
            _, e2 = self._call(lambda: lst.__delitem__(0))
        else:
            _, e2 = self._call(lst.reverse)
        if e1 is not None or e2 is not None or not len(lst):
            rec.log("item_history", "setup-failed")
            return
        item = list.__getitem__(lst, 0)
        v = dec(op["v"])
        _, err = self._call(lambda: setattr(item, op["key"], v))
        rec.log("item_history", op["path"], op["key"], type(err).__name__ if err else "ok")
        if err is None:
            return
        if model.norm(f, v, st.ctx) == REJ:
            self.check_rejection(st, rec, err, "%s[0].%s" % (op["path"], op["key"]), f, "set-attr")
            rec.probe("item-path-after-copy-and-shift")

    def gen_cmdline(self, st, rng, cfg, tgts, cfgpaths, owners):
        """A command-line override of a few scalar fields (valid and invalid values alike)."""
        scal = [t for t in tgts if "[" not in t.path and t.node["kind"] in ("string", "int", "float", "port", "bool", "ipv4addr", "ipv4net",
                                                                               "hostname", "url", "loglevel", "appmode", "secure")]
        if not scal:
            return None
        argv, paths = [], []
        for t in rng.sample(scal, min(len(scal), rng.randint(1, 3))):
            opt = "--" + t.path.replace(".", "-").replace("_", "-").lower()
            if t.node["kind"] == "bool":
                argv.append(opt if rng.random() < 0.5 else "--no-" + opt[2:])
                paths.append(t.path)
                continue
            v = values.gen_value(rng, t.node, self._want(st, rng), st.ctx)
            sv = v if isinstance(v, str) else repr(v) if isinstance(v, (int, float)) and not isinstance(v, bool) else None
            if sv is None or sv.startswith("-") or sv == "":
                continue
            argv += [opt, sv]
            paths.append(t.path)
        return {"op": "cmdline", "argv": argv, "paths": paths}

    def do_cmdline(self, st, cfg, c, op, rec):
        from cincoconfig.support import cmdline_args_override, generate_argparse_parser
        parser, err = self._call(lambda: generate_argparse_parser(st.B.root, prog="sim", add_help=False))
        if err is not None:
            rec.log("cmdline", "no-parser")
            return
        try:
            import contextlib
            import io
            with contextlib.redirect_stderr(io.StringIO()):
                ns = parser.parse_args(list(op["argv"]))
        except SystemExit:
            rec.log("cmdline", "usage")
            return
        s0 = snapshot.snap(cfg, st.serials)
        _, err = self._call(lambda: cmdline_args_override(cfg, ns))
        rec.log("cmdline", op["argv"], type(err).__name__ if err else "ok")
        rec.kind("ok" if err is None else "rej")
        rec.probe("cmdline-override:" + ("applied" if err is None else "rejected"))
        def dashed(path_):
            return path_.replace(".", "-").replace("_", "-").lower()
        tg_all, _, _ = ops.targets(st.sd, cfg)
        names = [dashed(t.path) for t in tg_all if "[" not in t.path]
        ambiguous = any(names.count(dashed(p_)) > 1 for p_ in op.get("paths", ()))      # e.f and e_f share the option --e-f
        if ambiguous:
            rec.probe("cmdline-option-names-collide")
        if err is None and self.prop == "C01" and "paths" in op and not ambiguous:
            # an override is an assignment of the supplied options: it changes no other field
            rec.check()
            a, b = s0, snapshot.snap(cfg, st.serials)
            for p in op["paths"]:
                a, b = snapshot.strip_under(a, p), snapshot.strip_under(b, p)
            if a != b:
                d = snapshot.diff(a, b)
                rec.fail("C01/frame", "C01/other-field-changed/cmdline", "a command-line override of %r also changed %s: %r -> %r" % (op["paths"], d[0], d[1], d[2]))

    def gen_render(self, st, rng, cfg, tgts, cfgpaths, owners):
        return {"op": "render", "how": rng.choice(["to_tree", "to_tree_virtual", "dumps_json", "dumps_pickle", "asdict", "validate", "argparse"])}

    def gen_assign_sub(self, st, rng, cfg, tgts, cfgpaths, owners):
        subs = [t for t in tgts if schema.is_cfg_node(t.node) and isinstance(t.value, Config) or (schema.is_cfg_node(t.node) and "[" not in t.path)]
        subs = [(p, c) for p, c in cfgpaths if not p.endswith("]")]
        if not subs:
            return None
        p, _ = rng.choice(subs)
        node = self.node_for(st, cfg, p)
        if node is None:
            return None
        snode = schema.sub_schema_node(st.sd, node)
        tree = ops.gen_tree(rng, st.sd, snode, st.ctx, p_key=rng.choice([0.3, 0.6, 0.9]))
        bad = None
        as_config = rng.random() < 0.3
        if not as_config and rng.random() < st.h["p_invalid"]:
            bad = ops.poison_tree(rng, st.sd, snode, tree, st.ctx)
        return {"op": "assign_sub", "path": p, "tree": enc(tree), "as_config": as_config, "aim": bad}

    def gen_load_tree(self, st, rng, cfg, tgts, cfgpaths, owners):
        choices = [("", None)] + [(p, c) for p, c in cfgpaths]
        p, _ = rng.choice(choices) if rng.random() < 0.5 else ("", None)
        snode = self.schema_node_at(st, cfg, p)
        if snode is None:
            return None
        tree = ops.gen_tree(rng, st.sd, snode, st.ctx, p_key=rng.choice([0.3, 0.6, 0.9]))
        bad = None
        if rng.random() < st.h["p_invalid"]:
            bad = ops.poison_tree(rng, st.sd, snode, tree, st.ctx)
        return {"op": "load_tree", "path": p, "tree": enc(tree), "aim": bad}

    def gen_loads(self, st, rng, cfg, tgts, cfgpaths, owners):
        snode = st.sd["root"]
        tree = ops.gen_tree(rng, st.sd, snode, st.ctx, p_key=rng.choice([0.3, 0.6, 0.9]))
        bad = None
        if rng.random() < st.h["p_invalid"]:
            bad = ops.poison_tree(rng, st.sd, snode, tree, st.ctx)
        fmt = rng.choice(ops.FORMATS)
        opts = {}
        if fmt == "yaml" and rng.random() < 0.3:
            opts["root_key"] = "CONFIG"
        if fmt == "xml" and rng.random() < 0.3:
            opts["root_tag"] = "cfg"
        return {"op": "loads", "fmt": fmt, "opts": opts, "tree": enc(tree), "aim": bad}

    def gen_loads_bad(self, st, rng, cfg, tgts, cfgpaths, owners):
        tree = ops.gen_tree(rng, st.sd, st.sd["root"], st.ctx, p_key=0.8)
        fmt = rng.choice(ops.FORMATS)
        if not ops.in_format_domain(fmt, tree):
            tree = {}
        try:
            doc = ops.write_doc(fmt, tree)
        except Exception:  # noqa: BLE001
            return None
        how = rng.choice(["cut", "cut", "cut", "garbage", "undecodable", "wrong_root", "empty"])
        if fmt == "pickle" and how == "garbage":
            how = "cut"   # never feed random bytes to pickle
        opts = {}
        if how == "cut":
            doc = doc[: rng.randrange(0, max(1, len(doc)))]
        elif how == "garbage":
            doc = bytes(rng.randrange(256) for _ in range(rng.randint(1, 20)))
        elif how == "undecodable":
            i = rng.randrange(0, max(1, len(doc)))
            doc = doc[:i] + b"\xff\xfe" + doc[i:]
        elif how == "wrong_root":
            fmt = "xml"
            doc = ops.write_doc("xml", tree if ops.in_format_domain("xml", tree) else {}, {"root_tag": "other"})
        elif how == "empty":
            doc = b""
        return {"op": "loads_bad", "fmt": fmt, "opts": opts, "doc": doc.hex(), "how": how, "via_file": rng.random() < 0.5}

    def gen_load_bad(self, st, rng, cfg, tgts, cfgpaths, owners):
        fmt = rng.choice(ops.FORMATS)
        how = rng.choice(["missing", "open-err", "is-dir", "unreadable"])
        return {"op": "load_bad", "fmt": fmt, "how": how, "errno": rng.choice(["EACCES", "EIO", "EMFILE"])}

    def gen_reset(self, st, rng, cfg, tgts, cfgpaths, owners):
        c = [t for t in tgts if t.node["kind"] not in ("virtual", "method") and not t.node.get("dynamic")]
        if not c:
            return None
        t = rng.choice(c)
        return {"op": "reset", "path": t.path, "rooted": "[" not in t.path and rng.random() < 0.6}

    def gen_lop(self, st, rng, cfg, tgts, cfgpaths, owners):
        ls = [t for t in tgts if t.node["kind"] == "list" and type(t.value).__name__ == "ListProxy"]
        if not ls:
            # give typed lists a value first
            cand = [t for t in tgts if t.node["kind"] == "list" and t.node.get("item") and t.node["item"]["kind"] != "any"]
            if not cand:
                return None
            t = rng.choice(cand)
            return {"op": "set", "via": "attr", "path": t.path, "v": enc([])}
        t = rng.choice(ls)
        cls = [x for x in ls if schema.is_cfg_node(x.node["item"])]
        if cls and rng.random() < (0.6 if self.prop == "C06" else 0.4):
            t = rng.choice(cls)          # lists of configurations: items can be rejected as a whole
        item = t.node["item"]
        n = len(t.value)
        name = rng.choice(["append", "append", "insert", "setitem", "extend", "slice_set", "iadd", "pop", "clear", "reverse",
                           "delitem", "imul", "remove_first", "copy_discard"])
        if schema.is_cfg_node(item) and rng.random() < (0.6 if self.prop == "C06" else 0.35):
            name = "setitem" if n and rng.random() < 0.6 else "append"

        def one():
            if schema.is_cfg_node(item) and self.prop == "C06" and rng.random() < 0.2:
                # an item that already sits in another list of the same item type is handed over (moved) as it is
                others = [x for x in cls if x.path != t.path and x.node["item"] is item and len(x.value)]
                if others:
                    return {"$move": rng.choice(others).path}
            if schema.is_cfg_node(item):
                inode = schema.sub_schema_node(st.sd, item)
                tree = ops.gen_tree(rng, st.sd, inode, st.ctx, p_key=0.6)
                if rng.random() < (max(st.h["p_invalid"], 0.5) if self.prop == "C06" and t.value else st.h["p_invalid"]):
                    r = rng.random()
                    if r < 0.25:
                        return {"$raw": enc(rng.choice(["scalar", 5, None, [1]]))}
                    if r < 0.55:
                        # every value acceptable, the item rejected only as a whole: a value its schema validator refuses,
                        # or required fields left out (given as a map, or as a configuration object that was not validated)
                        ints = [f for f in inode["fields"] if f["kind"] in ("int", "port") and not f.get("validator")]
                        if "pred" in inode.get("validators", ()) and ints and rng.random() < 0.6:
                            f = rng.choice(ints)
                            if isinstance(model.norm(f, 13, st.ctx), OK):
                                tree[f["key"]] = 13
                        else:
                            for f in inode["fields"]:
                                if f.get("o", {}).get("required"):
                                    tree.pop(f["key"], None)
                        return {"$tree": enc(tree), "as_config": rng.random() < 0.5, "validate": False}
                    ops.poison_tree(rng, st.sd, inode, tree, st.ctx)
                return {"$tree": enc(tree), "as_config": rng.random() < 0.3}
            return {"$raw": enc(values.gen_value(rng, item, self._want(st, rng), st.ctx))}

        if name == "imul" and (schema.is_cfg_node(item) or n > 24):
            # list *= n aliases the same configuration objects, as a built-in list would; and repeated doubling over a long
            # history makes lists of millions of items (one run then takes longer than the watchdog allows)
            name = "reverse"
        op = {"op": "lop", "path": t.path, "name": name}
        if name == "append":
            op["v"] = one()
        elif name in ("insert", "setitem"):
            op["i"] = rng.randint(-n - 2, n + 2) if rng.random() < (0.6 if self.prop == "C06" else 0.3) else (rng.randrange(n) if n else 0)
            op["v"] = one()
        elif name in ("extend", "iadd", "slice_set"):
            op["vs"] = [one() for _ in range(rng.choice([0, 1, 2, 3]))]
            op["as"] = rng.choice(["list", "tuple", "list"])
            if name == "slice_set":
                a = rng.randint(0, n)
                op["a"], op["b"] = a, rng.randint(a, n)
        elif name in ("pop", "delitem"):
            op["i"] = rng.randrange(n) if n else 0
        elif name == "imul":
            op["n"] = rng.choice([0, 1, 2])
        return op

    def gen_dop(self, st, rng, cfg, tgts, cfgpaths, owners):
        ds = [t for t in tgts if t.node["kind"] == "dict" and type(t.value).__name__ == "DictProxy"]
        if not ds:
            cand = [t for t in tgts if t.node["kind"] == "dict" and (t.node.get("kf") or t.node.get("vf"))]
            if not cand:
                return None
            t = rng.choice(cand)
            return {"op": "set", "via": "attr", "path": t.path, "v": enc({})}
        t = rng.choice(ds)
        kf, vf = t.node.get("kf"), t.node.get("vf")
        keys = list(dict.keys(t.value))

        def k():
            inplace = self.prop in ("C01", "C06", "C12", "C15")      # (documents turn keys into text: not for the save/load scenarios)
            if inplace and keys and rng.random() < 0.12:
                # an existing key spelled as an equal value of another type (1 / 1.0 / True address the same entry)
                e = rng.choice(keys)
                if type(e) is int:
                    return float(e) if abs(e) < 2 ** 50 else e
                if type(e) is bool:
                    return int(e)
                if type(e) is float and e == e and abs(e) < 2 ** 50 and e == int(e):
                    return int(e)
            if keys and rng.random() < 0.3:
                return rng.choice(keys)
            if not kf:
                return rng.choice(["k1", "k2", "k3", "k1", "k2", "k3", 1, 1.0, True, 0, 2] if inplace else ["k1", "k2", "k3"])
            return values.gen_value(rng, kf, "valid" if rng.random() < 0.8 else self._want(st, rng), st.ctx)

        def v():
            return values.gen_value(rng, vf, self._want(st, rng), st.ctx) if vf else rng.choice([1, "x", None, [1]])

        name = rng.choice(["setitem", "setitem", "update_dict", "update_pairs", "update_kwargs", "setdefault", "ior", "pop", "clear",
                           "delitem", "popitem", "update_copy_kwargs"])
        op = {"op": "dop", "path": t.path, "name": name}
        if name in ("setitem", "setdefault"):
            op["k"], op["v"] = enc(k()), enc(v())
        elif name in ("update_dict", "update_pairs", "ior"):
            op["pairs"] = [[enc(k()), enc(v())] for _ in range(rng.choice([0, 1, 2, 3]))]
        elif name in ("update_kwargs", "update_copy_kwargs"):
            op["pairs"] = [[rng.choice(["k1", "k2", "ab", "zz"]), enc(v())] for _ in range(rng.choice([1, 2]))]
        elif name in ("pop", "delitem"):
            op["k"] = enc(rng.choice(keys) if keys else "nokey")
        return op

    def gen_ctor(self, st, rng, cfg, tgts, cfgpaths, owners):
        snode = st.sd["root"]
        kw = {}
        for f in snode["fields"]:
            if not ops.loadable(f) or rng.random() > 0.4:
                continue
            if schema.is_cfg_node(f):
                kw[f["key"]] = ops.gen_tree(rng, st.sd, schema.sub_schema_node(st.sd, f), st.ctx, p_key=0.5)
            elif f["kind"] == "list" and f.get("item") and schema.is_cfg_node(f["item"]):
                kw[f["key"]] = []
            else:
                kw[f["key"]] = values.gen_value(rng, f, "valid", st.ctx)
        bad = None
        if kw and rng.random() < st.h["p_invalid"]:
            key = rng.choice(sorted(kw))
            f = next(x for x in snode["fields"] if x["key"] == key)
            if schema.is_cfg_node(f):
                kw[key] = rng.choice(["scalar", 7])
            else:
                kw[key] = values.gen_value(rng, f, "invalid", st.ctx)
            bad = key
        return {"op": "ctor", "kw": enc(kw), "aim": bad}

    def gen_dyn(self, st, rng, cfg, tgts, cfgpaths, owners):
        choices = [""] + [p for p, c in cfgpaths]
        p = rng.choice(choices)
        key = rng.choice(["dyn1", "dyn2", "dyn3", "dyn1", "dyn2", "_tok", "x-y", "_tok"])      # (a key with a dot cannot be told from a dotted path in the harness: not generated)
        return {"op": "dyn", "path": p, "key": key, "via": rng.choice(["attr", "item"]) if "." not in key else "attr",
                "v": enc(rng.choice([1, "s", [1, [2]], {"a": {"b": 1}}, None, 2.5]))}

    # =========================================================================== lookup helpers
    def node_for(self, st, cfg, path):
        tgts, cfgpaths, owners = ops.targets(st.sd, cfg)
        for t in tgts:
            if t.path == path:
                return t.node
        return None

    def schema_node_at(self, st, cfg, path):
        """Schema node of the configuration living at `path` ('' = root; may end in [i])."""
        if not path:
            return st.sd["root"]
        found = {}

        def vcfg(p, node, c):
            found[p] = node

        schema.walk(st.sd, cfg, lambda *a: None, visit_cfg=vcfg)
        return found.get(path)

    # =========================================================================== execution
    def apply(self, st, op, rec):
        if op["op"] == "noop" or not st.cfgs:
            rec.log("noop")
            return
        c = op.get("cfg", 0) % len(st.cfgs)
        cfg = st.cfgs[c]
        B = st.B
        B.fault = next((f for f in op.get("faults", ()) if f.get("seam") == "callback"), None)
        B.vcount = 0
        fired0 = B.fault_fired
        try:
            getattr(self, "do_" + op["op"])(st, cfg, c, op, rec)
        finally:
            B.fault = None
        if B.fault_fired > fired0:
            st.world.fired.append((st.world.step, {"kind": "callback-err", "seam": "callback", "errno": op["faults"][0].get("exc")}))
        for other in st.cfgs:
            self.check_holds(st, other, rec, op["op"] + (":" + op["name"] if "name" in op else ""))
            self.check_defined_by_path(st, other, rec, op["op"])

    def _call(self, fn):
        try:
            return fn(), None
        except SeamGap:
            raise
        except Exception as exc:  # noqa: BLE001
            return None, exc

    # ---- single assignment
    def do_set(self, st, cfg, c, op, rec):
        path = op["path"]
        node = self.node_for(st, cfg, path)
        opath, key = ops.split_last(path)
        try:
            owner = ops.resolve(cfg, opath)
        except Exception:  # noqa: BLE001
            owner = None
        if node is None or not isinstance(owner, Config):
            rec.log("set", "skip")
            return
        items_tree = None
        if isinstance(op["v"], dict) and "$items" in op["v"]:
            if not (node["kind"] == "list" and node.get("item") and schema.is_cfg_node(node["item"])):
                rec.log("set", "skip")
                return
            try:
                pairs = [self._item_value(st, node, path, dict(sp, validate=False)) for sp in op["v"]["$items"]]
            except SeamGap:
                raise
            except Exception:  # noqa: BLE001 - a configuration object could not be prepared from its map
                rec.log("set", "prep-failed")
                return
            v = [p[0] for p in pairs]
            items_tree = [p[1] for p in pairs]
        else:
            v = dec(op["v"])
        route = "set-" + op["via"]
        s0 = snapshot.snap(cfg, st.serials)
        if op["via"] == "attr":
            _, err = self._call(lambda: setattr(owner, key, v))
        elif "[" in path:
            _, err = self._call(lambda: owner.__setitem__(key, v))
        else:
            _, err = self._call(lambda: cfg.__setitem__(path, v))
        rec.log("set", path, node["kind"], canon(v) if items_tree is None else canon(items_tree), type(err).__name__ if err else "ok")
        rec.kind("ok" if err is None else "rej")
        if items_tree is not None:
            rec.probe("set-config-list:" + ("accepted" if err is None else "rejected"))
            if err is None:
                self.check_frame(st, rec, s0, cfg, path, route, "config-list")
                self.check_defined(st, rec, owner, key, True, route, "config-list")
            else:
                self.check_unchanged(st, rec, s0, cfg, route, "config-list")
                osnode = self.schema_node_at(st, cfg, opath)
                if osnode is not None:
                    self.after_tree_rejection(st, rec, err, osnode, {key: items_tree}, opath + "." if opath else "", route)
            return
        if schema.is_cfg_node(node):
            if err is None:
                rec.probe("set-cfg-accepted")
                self.check_frame(st, rec, s0, cfg, path, route, "subconfig")
                self.check_defined(st, rec, owner, key, True, route, "subconfig")
            else:
                self.check_unchanged(st, rec, s0, cfg, route, "subconfig")
                if isinstance(v, dict):
                    self.after_tree_rejection(st, rec, err, schema.sub_schema_node(st.sd, node), v, path + ".", route, fresh_top=True)
                else:
                    self.check_rejection(st, rec, err, path, node, route)
            return
        if node["kind"] in ("virtual", "method"):
            if err is not None:
                self.check_unchanged(st, rec, s0, cfg, route, node["kind"])
            return
        exp = model.norm(node, v, st.ctx)
        if any(f.get("kind") == "dns-err" for _, f in st.world.fired if _ == st.world.step):
            exp = REJ if err is not None else UNSPEC     # resolution failed: the value is rejected (no read-back claim)
            rec.probe("dns-failure-during-assignment")
        faulted = st.B.fault_fired and st.B.fault is not None and st.B.vcount >= st.B.fault.get("nth", 99)
        if err is None:
            rec.probe("set-accepted")
            if self.prop == "C01":
                rec.relevant += 1
                rec.check()
                got = ops.resolve(cfg, path)
                if isinstance(exp, OK) and not ops.matches(exp.v, got):
                    rec.fail("C01/readback", "C01/readback-not-normalised/%s/%s" % (route, node["kind"]),
                             "%s %s = %r: reading back gives %r, the field's normalised form is %r"
                             % (route, path, canon(v), canon(got), exp.v))
                if exp == REJ and node["kind"] in ("filename", "hostname") and not faulted and v is not None:
                    # constraints that depend on the platform at the moment of acceptance (existence of the resolved path,
                    # name resolution) cannot be re-checked on the stored value later: they are judged here
                    rec.fail("C01/holds", "C01/constraint-violating-value-accepted/%s/%s" % (route, node["kind"]),
                             "%s %s = %r was accepted although the field's declared constraints %r reject it in the current state of "
                             "the platform" % (route, path, canon(v), node.get("o")))
            self.check_frame(st, rec, s0, cfg, path, route, node["kind"])
            self.check_defined(st, rec, owner, key, True, route, node["kind"])
        else:
            rec.probe("set-rejected" + (":fault" if faulted else ""))
            self.check_unchanged(st, rec, s0, cfg, route, node["kind"])
            where, verdict = self.leaf_verdict(st, node, path, v, False)
            self.check_rejection(st, rec, err, where, node, route, exact=(verdict == REJ))


    def leaf_verdict(self, st, node, path, v, loaded):
        """Model verdict for one value aimed at a leaf field: (path the error must name, OK|REJ|UNSPEC).
        For a typed dict with a rejected entry the path carries the entry's key."""
        r = ops.expect_loaded(node, v, st.ctx) if loaded else model.norm(node, v, st.ctx)
        if r == REJ and node["kind"] == "dict" and (node.get("kf") or node.get("vf")) and isinstance(v, dict) and not (
                node.get("o", {}).get("required") and not v):
            kf = node.get("kf") or {"kind": "any", "o": {}}
            vf = node.get("vf") or {"kind": "any", "o": {}}
            bad = []
            for a, b in v.items():
                ra = ops.expect_loaded(kf, a, st.ctx) if loaded else model.norm(kf, a, st.ctx)
                rb = ops.expect_loaded(vf, b, st.ctx) if loaded else model.norm(vf, b, st.ctx)
                if ra == REJ or rb == REJ:
                    bad.append(a)
                elif UNSPEC in (ra, rb):
                    return path, UNSPEC
            if len(bad) == 1 and type(bad[0]) in (str, int, bool, tuple) and kf["kind"] != "bytes":
                # (a binary key has a text form in documents and a bytes form in memory: which one the error shows is open;
                # likewise "the key" may be shown as given or as the key field normalises it: claimed when both read the same)
                nk = ops.expect_loaded(kf, bad[0], st.ctx) if loaded else model.norm(kf, bad[0], st.ctx)
                if isinstance(nk, OK) and str(nk.v) != str(bad[0]):
                    return path, UNSPEC
                return "%s[%s]" % (path, str(bad[0])), REJ
            # several offending entries (conversion and validation are separate passes, so which one is
            # reported first is not defined), or rejected as a whole by the field's own validator
            return path, UNSPEC
        if isinstance(r, OK):
            return path, OK
        return path, r

    def do_set_from(self, st, cfg, c, op, rec):
        path = op["path"]
        node = self.node_for(st, cfg, path)
        opath, key = ops.split_last(path)
        try:
            owner = ops.resolve(cfg, opath)
            value = ops.resolve(st.cfgs[op.get("src_cfg", 0) % len(st.cfgs)], op["src"])
        except Exception:  # noqa: BLE001
            rec.log("set_from", "skip")
            return
        if node is None or not isinstance(owner, Config) or type(value).__name__ not in ("ListProxy", "DictProxy"):
            rec.log("set_from", "skip")
            return
        s0 = snapshot.snap(cfg, st.serials)
        _, err = self._call(lambda: setattr(owner, key, value))
        rec.log("set_from", path, op["src"], type(err).__name__ if err else "ok")
        rec.kind("ok" if err is None else "rej")
        rec.probe("container-assigned-from-%s-field" % ("same" if op["src"] == path else "other"))
        if err is None:
            self.check_frame(st, rec, s0, cfg, path, "set-from-field", node["kind"])
            self.check_defined(st, rec, owner, key, True, "set-from-field", node["kind"])
        else:
            self.check_unchanged(st, rec, s0, cfg, "set-from-field", node["kind"])

    def do_render(self, st, cfg, c, op, rec):
        """Read-only renderings: they must not change any configuration (C13: nor the schema)."""
        how = op["how"]
        s0 = snapshot.snap(cfg, st.serials)
        from cincoconfig.support import asdict
        if how == "to_tree":
            _, err = self._call(lambda: cfg.to_tree())
        elif how == "to_tree_virtual":
            _, err = self._call(lambda: cfg.to_tree(virtual=True, sensitive_mask="*"))
        elif how.startswith("dumps_"):
            _, err = self._call(lambda: cfg.dumps(how[6:]))
        elif how == "argparse":
            # the command-line frame with nothing on the command line: parser from the schema, empty argv, override applied
            from cincoconfig.support import cmdline_args_override, generate_argparse_parser

            def frame():
                parser = generate_argparse_parser(st.B.root, prog="sim", add_help=False)
                cmdline_args_override(cfg, parser.parse_args([]))
            _, err = self._call(frame)
        elif how == "asdict":
            _, err = self._call(lambda: asdict(cfg, virtual=True))
        else:
            _, err = self._call(lambda: cfg.validate(collect_errors=True))
        for f in st.sd["root"]["fields"]:
            if f["kind"] == "method":
                r, e = self._call(lambda: getattr(cfg, f["key"])(1, 2))
                if e is None and r == ("method", 2, type(cfg).__name__):
                    rec.probe("instance-method-called")
        rec.log("render", how, type(err).__name__ if err else "ok")
        if self.prop == "C12":
            # "a field becomes user-defined exactly when a value is successfully assigned or loaded for it"
            rec.check()
            fa, fb = flags_of(s0), flags_of(snapshot.snap(cfg, st.serials))
            bad = sorted(k for k in fa if k in fb and fa[k] != fb[k])
            if bad:
                rec.fail("C12/defined", "C12/read-only-operation-changed-user-defined-status/%s" % how,
                         "%s changed the user-defined status of %s: %r -> %r" % (how, bad[0], fa[bad[0]], fb[bad[0]]))
        elif snapshot.snap(cfg, st.serials) != s0:
            rec.probe("read-only-operation-changed-configuration")

    # ---- trees
    def judge_tree(self, st, snode, tree, prefix="", fresh_top=False):
        """-> (rejected slot paths, has_unspec) by the model, for a tree aimed at schema node snode.
        fresh_top: the tree creates a new configuration (map assigned to a sub-configuration, constructor
        keyword), so that configuration's schema validator judges it as well."""
        rej, unspec = [], False
        if isinstance(tree, dict) and self.pred_hits(st, snode, tree, use_defaults=fresh_top):
            # a new configuration is judged by its schema validator on tree + defaults; an existing load target on
            # what the tree brings (its previous state is covered by pre_invalid)
            rej.append((prefix.rstrip("."), None))
        for p, node, cont, key in ops.tree_leaf_slots(st.sd, snode, tree, prefix):
            v = cont[key]
            if schema.is_cfg_node(node):
                if not isinstance(v, dict):
                    rej.append((p, node))
                continue
            if node["kind"] == "list" and node.get("item") and schema.is_cfg_node(node["item"]):
                if not isinstance(v, (list, tuple)):
                    rej.append((p, node))
                elif any(not isinstance(x, dict) for x in v):
                    rej.append((p, node))
                elif node.get("o", {}).get("required") and not v:
                    rej.append((p, node))
                elif model.validator_rejects(node, list(v)):
                    rej.append((p, node))
                continue
            if not ops.loadable(node):
                unspec = True
                continue
            where, verdict = self.leaf_verdict(st, node, p, v, True)
            if verdict == REJ:
                rej.append((where, node))
            elif verdict == UNSPEC:
                unspec = True
        rej += self.pred_rejections(st, snode, tree, prefix)
        # keys the schema does not declare
        if isinstance(tree, dict):
            declared = {f["key"] for f in snode["fields"]}
            if any(k not in declared for k in tree) and not snode.get("dynamic"):
                unspec = True
        return rej, unspec

    def pred_rejections(self, st, snode, tree, prefix, top=True):
        """Configurations in the tree whose schema validator ('pred': no integer field may be 13) refuses the
        loaded data.  The top-level map is loaded into an existing configuration, whose other fields are not in
        the tree: only newly created configurations (nested maps, list items) are judged."""
        out = []
        if not isinstance(tree, dict):
            return out
        for f in snode["fields"]:
            k = f["key"]
            if k not in tree:
                continue
            v = tree[k]
            p = prefix + k
            if schema.is_cfg_node(f) and isinstance(v, dict):
                sn = schema.sub_schema_node(st.sd, f)
                if self.pred_hits(st, sn, v):
                    out.append((p, None))
                out += self.pred_rejections(st, sn, v, p + ".", False)
            elif f["kind"] == "list" and f.get("item") and schema.is_cfg_node(f["item"]) and isinstance(v, list):
                sn = schema.sub_schema_node(st.sd, f["item"])
                for i, it in enumerate(v):
                    if isinstance(it, dict):
                        if self.pred_hits(st, sn, it):
                            out.append(("%s[%d]" % (p, i), None))
                        out += self.pred_rejections(st, sn, it, "%s[%d]." % (p, i), False)
        return out

    def pred_hits(self, st, snode, tree, use_defaults=True):
        if "pred" not in snode.get("validators", ()):
            return False
        for f in snode["fields"]:
            if f["key"] in tree and not schema.is_cfg_node(f) and f["kind"] in ("int", "port", "float", "any", "bool"):
                r = ops.expect_loaded(f, tree[f["key"]], st.ctx)
                if isinstance(r, OK) and isinstance(r.v, int) and not isinstance(r.v, bool) and r.v == 13:
                    return True
            elif use_defaults and f["key"] not in tree and not schema.is_cfg_node(f):
                d = f.get("o", {}).get("default")
                if isinstance(d, dict) and "$call" in d:
                    d = d["$call"]
                if isinstance(d, int) and not isinstance(d, bool) and d == 13:
                    return True
        return False

    def check_loaded_values(self, st, rec, cfgobj, snode, tree, prefix, route, fresh):
        """After an accepted load of `tree` into cfgobj: present keys hold the loaded (normalised)
        values and are user-defined; when `fresh` (the configuration was newly created for this load)
        absent keys expose their defaults and are not user-defined."""
        if self.prop not in ("C01", "C12"):
            return
        for f in snode["fields"]:
            k = f["key"]
            p = prefix + k
            if f["kind"] in ("virtual", "method"):
                continue
            present = isinstance(tree, dict) and k in tree
            try:
                value = getattr(cfgobj, k)
            except AttributeError:
                continue
            if present and not ops.loadable(f):
                continue
            if present:
                rec.check()
                if self.prop == "C12" and not is_value_defined(cfgobj, k):
                    rec.fail("C12/defined", "C12/loaded-field-not-user-defined/%s/%s" % (route, f["kind"]),
                             "%s: %s was loaded but is not reported user-defined" % (route, p))
                if schema.is_cfg_node(f):
                    if isinstance(value, Config) and isinstance(tree[k], dict):
                        self.check_loaded_values(st, rec, value, schema.sub_schema_node(st.sd, f), tree[k], p + ".", route, fresh)
                    continue
                if f["kind"] == "list" and f.get("item") and schema.is_cfg_node(f["item"]):
                    if isinstance(tree[k], list) and isinstance(value, list) and len(value) == len(tree[k]):
                        inode = schema.sub_schema_node(st.sd, f["item"])
                        for i, (it, sub) in enumerate(zip(list.__iter__(value), tree[k])):
                            if isinstance(it, Config) and isinstance(sub, dict):
                                self.check_loaded_values(st, rec, it, inode, sub, "%s[%d]." % (p, i), route, True)

                    continue
            elif fresh and self.prop == "C12":
                rec.check()
                if is_value_defined(cfgobj, k):
                    rec.fail("C12/defined", "C12/unloaded-field-user-defined/%s/%s" % (route, f["kind"]),
                             "%s: %s was not in the loaded map yet reports user-defined" % (route, p))
                if schema.is_cfg_node(f):
                    if isinstance(value, Config):
                        self.check_fresh(st, value, schema.sub_schema_node(st.sd, f), p + ".", rec, None, route)
                    continue
                exp = ops.default_expect(f)
                if exp is not ops.NOCHECK and not ops.matches(exp, value):
                    rec.fail("C12/fresh", "C12/default-not-exposed/%s/%s" % (route, f["kind"]),
                             "%s: %s not in the loaded map exposes %r, default is %r" % (route, p, canon(value), exp))

    def pre_invalid(self, st, target):
        """Does the configuration already fail its own validation (e.g. after a load that failed half-way)?  Then
        every further load into it ends in that failure, whatever the tree holds: no path claim can be made."""
        if self.prop != "C15":
            return False
        fault, st.B.fault = st.B.fault, None          # an observation: it must not consume the operation's injected fault
        n = st.B.vcount
        try:
            errs, e = self._call(lambda: target.validate(collect_errors=True))
        finally:
            st.B.fault, st.B.vcount = fault, n
        return bool(errs) or e is not None

    def after_tree_rejection(self, st, rec, err, snode, tree, prefix, route, fresh_top=False, pre_bad=False):
        rej, unspec = self.judge_tree(st, snode, tree, prefix, fresh_top=fresh_top)
        unspec = unspec or pre_bad
        faulted = st.B.fault is not None and st.B.vcount >= st.B.fault.get("nth", 99)
        if len(rej) == 1 and not unspec and not faulted:
            self.check_rejection(st, rec, err, rej[0][0], rej[0][1], route)
        else:
            self.check_rejection(st, rec, err, None, rej[0][1] if rej else None, route, exact=False)

    def do_assign_sub(self, st, cfg, c, op, rec):
        path = op["path"]
        node = self.node_for(st, cfg, path)
        opath, key = ops.split_last(path)
        try:
            owner = ops.resolve(cfg, opath)
        except Exception:  # noqa: BLE001
            owner = None
        if node is None or not schema.is_cfg_node(node) or not isinstance(owner, Config):
            rec.log("assign_sub", "skip")
            return
        snode = schema.sub_schema_node(st.sd, node)
        tree = dec(op["tree"])
        route = "assign-config" if op.get("as_config") else "assign-map"
        if op.get("as_config"):
            fresh, err = self._call(lambda: self.make_fresh(st, node, path))
            if err is None:
                _, err = self._call(lambda: fresh.load_tree(tree))
            if err is not None:
                rec.log("assign_sub", "fresh-load-failed")
                return
            s0 = snapshot.snap(cfg, st.serials)
            _, err = self._call(lambda: setattr(owner, key, fresh))
            rec.log("assign_sub", path, "config", type(err).__name__ if err else "ok")
            rec.kind("ok" if err is None else "rej")
            if err is None:
                rec.probe("assign-config-accepted")
                if ops.resolve(cfg, path) is fresh:
                    rec.probe("assigned-config-object-held")
                self.check_frame(st, rec, s0, cfg, path, route, "config")
                self.check_defined(st, rec, owner, key, True, route, "config")
            else:
                self.check_unchanged(st, rec, s0, cfg, route, "config")
                self.check_rejection(st, rec, err, path, node, route)
            return
        s0 = snapshot.snap(cfg, st.serials)
        _, err = self._call(lambda: setattr(owner, key, tree))
        rec.log("assign_sub", path, "map", canon(tree), type(err).__name__ if err else "ok")
        rec.kind("ok" if err is None else "rej")
        if err is None:
            rec.probe("assign-map-accepted")
            rec.relevant += 1
            new = ops.resolve(cfg, path)
            self.check_frame(st, rec, s0, cfg, path, route, "map")
            self.check_defined(st, rec, owner, key, True, route, "map")
            if isinstance(new, Config):
                self.check_loaded_values(st, rec, new, snode, tree, path + ".", route, False)
        else:
            rec.probe("assign-map-rejected")
            self.check_unchanged(st, rec, s0, cfg, route, "map")
            self.after_tree_rejection(st, rec, err, snode, tree, path + ".", route, fresh_top=True)

    def make_fresh(self, st, node, path):
        if node["kind"] == "configtype":
            return st.B.types[node["type"]]()
        if "ref" in node:
            return st.B.shared[node["ref"]]()
        # nested schema field: the real Schema object is registered under its root path
        tag = re.sub(r"\[\d+\]", "", path)
        fld = st.B.fields.get(tag)
        if fld is None:
            raise KeyError(tag)
        return fld()

    def do_load_tree(self, st, cfg, c, op, rec):
        path = op["path"]
        snode = self.schema_node_at(st, cfg, path)
        try:
            target = ops.resolve(cfg, path)
        except Exception:  # noqa: BLE001
            target = None
        if snode is None or not isinstance(target, Config):
            rec.log("load_tree", "skip")
            return
        tree = dec(op["tree"])
        s0 = snapshot.snap(cfg, st.serials)
        st.pre_bad = self.pre_invalid(st, target)
        _, err = self._call(lambda: target.load_tree(tree))
        rec.log("load_tree", path, canon(tree), type(err).__name__ if err else "ok")
        rec.kind("ok" if err is None else "rej")
        self.after_load(st, cfg, target, snode, tree, path, err, s0, rec, "load-tree")

    def after_load(self, st, cfg, target, snode, tree, path, err, s0, rec, route):
        prefix = path + "." if path else ""
        if err is None:
            rec.probe(route + "-accepted")
            rec.relevant += 1
            self.check_loaded_values(st, rec, target, snode, tree, prefix, route, False)
            if self.prop in ("C01", "C12") and isinstance(tree, dict):
                # top-level frame: keys not in the map are untouched
                rec.check()
                s1 = snapshot.snap(cfg, st.serials)
                a = snapshot.sub_snapshot(s0, path) if path else s0
                b = snapshot.sub_snapshot(s1, path) if path else s1
                if a is not None and b is not None:
                    a2, b2 = snapshot.strip_keys(a, set(tree)), snapshot.strip_keys(b, set(tree))
                    if a2 != b2:
                        d = snapshot.diff(a2, b2)
                        rec.fail("%s/frame" % self.prop, "%s/load-changed-unlisted-field/%s" % (self.prop, route),
                                 "%s of %r changed %s which is not in the map: %r -> %r" % (route, sorted(tree), d[0], d[1], d[2]))
                    if path and snapshot.strip_under(s0, path) != snapshot.strip_under(s1, path):
                        d = snapshot.diff(snapshot.strip_under(s0, path), snapshot.strip_under(s1, path))
                        rec.fail("%s/frame" % self.prop, "%s/load-changed-outside-target/%s" % (self.prop, route),
                                 "%s into %s changed %s" % (route, path, d[0]))
        else:
            rec.probe(route + "-rejected")
            self.after_tree_rejection(st, rec, err, snode, tree, prefix, route, pre_bad=getattr(st, "pre_bad", False))

    def do_loads(self, st, cfg, c, op, rec):
        tree = dec(op["tree"])
        fmt, opts = op["fmt"], op.get("opts", {})
        if not ops.in_format_domain(fmt, tree):
            rec.log("loads", "out-of-domain")
            return
        try:
            doc = ops.write_doc(fmt, tree, opts)
        except Exception:  # noqa: BLE001
            rec.log("loads", "unwritable")
            return
        if fmt != "xml":
            tree = ops.parse_doc(fmt, doc, opts)   # what the document really says, in document order
        s0 = snapshot.snap(cfg, st.serials)
        st.pre_bad = self.pre_invalid(st, cfg)
        _, err = self._call(lambda: cfg.loads(doc, fmt, **opts))
        rec.log("loads", fmt, canon(tree), type(err).__name__ if err else "ok")
        rec.kind(fmt + (":ok" if err is None else ":rej"))
        self.after_load(st, cfg, cfg, st.sd["root"], tree, "", err, s0, rec, "loads-" + fmt)

    def do_loads_bad(self, st, cfg, c, op, rec):
        doc = bytes.fromhex(op["doc"])
        fmt, opts = op["fmt"], op.get("opts", {})
        parses = ops.doc_parses(fmt, doc, opts)
        via_file = bool(op.get("via_file")) and not opts
        if via_file:
            st.world.poke("/data/bad-doc." + fmt, doc)      # the same malformed document, read from a file
        s0 = snapshot.snap(cfg, st.serials)
        if via_file:
            _, err = self._call(lambda: cfg.load("/data/bad-doc." + fmt, fmt))
        else:
            _, err = self._call(lambda: cfg.loads(doc, fmt, **opts))
        rec.log("loads_bad", fmt, op.get("how"), parses, "file" if via_file else "bytes", type(err).__name__ if err else "ok")
        rec.kind(fmt + ":" + str(op.get("how")) + (":ok" if err is None else ":rej"))
        if parses:
            rec.probe("torn-doc-still-parses")
            return
        rec.probe("unparsable-doc:" + str(op.get("how")))
        if err is not None:
            self.check_unchanged(st, rec, s0, cfg, "loads-unparsable-" + fmt, str(op.get("how")))
        else:
            rec.probe("unparsable-doc-but-load-returned")     # C06 speaks of operations that raise: no claim

    def do_load_bad(self, st, cfg, c, op, rec):
        w = st.world
        fmt, how = op["fmt"], op["how"]
        fname = "/data/bad." + fmt
        if how == "missing":
            w.unlink_quiet(fname)
        elif how == "is-dir":
            fname = "/data/dir"
        else:
            w.poke(fname, ops.write_doc(fmt, {}))
            if how == "unreadable":
                w.unreadable.add(fname)
            else:
                w.armed.append({"seam": "open:r", "nth": 1, "errno": op.get("errno", "EIO"), "kind": "open-err"})
        s0 = snapshot.snap(cfg, st.serials)
        _, err = self._call(lambda: cfg.load(fname, fmt))
        w.unreadable.discard(fname)
        rec.log("load_bad", fmt, how, type(err).__name__ if err else "ok")
        rec.kind(how)
        if err is not None:
            # C06 lists documents that fail to *parse* and unresolvable includes; a main document that cannot be opened is
            # not on the list: observed, not judged
            rec.probe("load-io-failure:" + how + (":unchanged" if snapshot.snap(cfg, st.serials) == s0 else ":changed"))

    # ---- reset
    def do_reset(self, st, cfg, c, op, rec):
        path = op["path"]
        node = self.node_for(st, cfg, path)
        opath, key = ops.split_last(path)
        try:
            owner = ops.resolve(cfg, opath)
        except Exception:  # noqa: BLE001
            owner = None
        if node is None or not isinstance(owner, Config) or node["kind"] in ("virtual", "method"):
            rec.log("reset", "skip")
            return
        s0 = snapshot.snap(cfg, st.serials)
        calls0 = dict(st.B.calls)
        if op.get("rooted") and "[" not in path:
            _, err = self._call(lambda: reset_value(cfg, path))
        else:
            _, err = self._call(lambda: reset_value(owner, key))
        rec.log("reset", path, type(err).__name__ if err else "ok")
        rec.kind("ok" if err is None else "rej")
        if err is not None:
            if self.prop == "C12":
                rec.fail("C12/reset", "C12/reset-raises/%s/%s" % (node["kind"], type(err).__name__), "reset_value(%s) raised %r" % (path, err))
            return
        rec.relevant += 1
        self.check_frame(st, rec, s0, cfg, path, "reset", node["kind"])
        self.check_defined(st, rec, owner, key, False, "reset", node["kind"])
        if self.prop == "C12":
            rec.check()
            value = getattr(owner, key)
            if schema.is_cfg_node(node):
                if isinstance(value, Config):
                    self.check_fresh(st, value, schema.sub_schema_node(st.sd, node), path + ".", rec, None, "reset")
                else:
                    rec.fail("C12/reset", "C12/reset-subconfig-lost", "%s is %r after reset" % (path, value))
            else:
                exp = ops.default_expect(node)
                if exp is not ops.NOCHECK and not ops.matches(exp, value):
                    rec.fail("C12/reset", "C12/reset-value-not-default/%s" % node["kind"],
                             "after reset %s exposes %r, default is %r" % (path, canon(value), exp))
                d = node.get("o", {}).get("default")
                tag = self.tag_of(st, path)
                if isinstance(d, dict) and "$call" in d and tag is not None and st.B.calls.get(tag, 0) > calls0.get(tag, 0):
                    rec.probe("reset-evaluated-callable-default")

    # ---- constructor keywords
    def do_ctor(self, st, cfg, c, op, rec):
        kw = dec(op["kw"])
        snode = st.sd["root"]
        calls0 = dict(st.B.calls)
        new, err = self._call(lambda: st.B.root(**kw))
        rec.log("ctor", canon(kw), type(err).__name__ if err else "ok")
        rec.kind("ok" if err is None else "rej")
        if err is not None:
            rec.probe("ctor-rejected")
            # what is rejected?  judge keyword by keyword
            rej, unspec = [], False
            for f in snode["fields"]:
                if f["key"] not in kw:
                    continue
                v = kw[f["key"]]
                if schema.is_cfg_node(f):
                    if not isinstance(v, dict):
                        rej.append((f["key"], f))
                    else:
                        r2, u2 = self.judge_tree(st, schema.sub_schema_node(st.sd, f), v, f["key"] + ".", fresh_top=True)
                        rej += r2
                        unspec = unspec or u2
                elif not ops.loadable(f):
                    unspec = True
                else:
                    where, r = self.leaf_verdict(st, f, f["key"], v, False)
                    if r == REJ:
                        rej.append((where, f))
                    elif r == UNSPEC:
                        unspec = True
            faulted = st.B.fault is not None and st.B.vcount >= st.B.fault.get("nth", 99)
            if len(rej) == 1 and not unspec and not faulted:
                self.check_rejection(st, rec, err, rej[0][0], rej[0][1], "ctor")
            else:
                self.check_rejection(st, rec, err, None, rej[0][1] if rej else None, "ctor", exact=False)
            return
        rec.probe("ctor-accepted")
        rec.relevant += 1
        for f in snode["fields"]:
            k = f["key"]
            if f["kind"] in ("virtual", "method"):
                continue
            value = getattr(new, k)
            if k in kw:
                self.check_defined(st, rec, new, k, True, "ctor", f["kind"])
                if schema.is_cfg_node(f):
                    if isinstance(value, Config) and isinstance(kw[k], dict):
                        self.check_loaded_values(st, rec, value, schema.sub_schema_node(st.sd, f), kw[k], k + ".", "ctor", True)
                    continue
                if self.prop == "C01" and ops.loadable(f):
                    rec.check()
                    exp = model.norm(f, kw[k], st.ctx)
                    if isinstance(exp, OK) and not ops.matches(exp.v, value):
                        rec.fail("C01/readback", "C01/readback-not-normalised/ctor/%s" % f["kind"],
                                 "constructor keyword %s=%r reads back %r, normalised form is %r" % (k, canon(kw[k]), canon(value), exp.v))
            else:
                self.check_defined(st, rec, new, k, False, "ctor", f["kind"])
                if self.prop == "C12":
                    if schema.is_cfg_node(f):
                        if isinstance(value, Config):
                            self.check_fresh(st, value, schema.sub_schema_node(st.sd, f), k + ".", rec, calls0, "ctor")
                    else:
                        exp = ops.default_expect(f)
                        if exp is not ops.NOCHECK and not ops.matches(exp, value):
                            rec.fail("C12/fresh", "C12/default-not-exposed/ctor/%s" % f["kind"],
                                     "constructor: %s exposes %r, default is %r" % (k, canon(value), exp))
        st.cfgs[c] = new

    # ---- dynamic fields
    def do_dyn(self, st, cfg, c, op, rec):
        path = op["path"]
        snode = self.schema_node_at(st, cfg, path)
        try:
            owner = ops.resolve(cfg, path)
        except Exception:  # noqa: BLE001
            owner = None
        if snode is None or not isinstance(owner, Config):
            rec.log("dyn", "skip")
            return
        v = dec(op["v"])
        key = op["key"]
        full = (path + "." if path else "") + key
        s0 = snapshot.snap(cfg, st.serials)
        plain_key = key.isidentifier() and not key.startswith("_")

        def look():
            """What reading the key itself shows: (value or exception class) by item access, and membership."""
            out = []
            for fn in (lambda: owner[key], lambda: key in owner):
                r, e = self._call(fn)
                out.append(type(e).__name__ if e is not None else canon(r))
            return out
        seen0 = look()
        if op.get("via") == "item":
            _, err = self._call(lambda: owner.__setitem__(key, v))
        else:
            _, err = self._call(lambda: setattr(owner, key, v))
        rec.log("dyn", full, type(err).__name__ if err else "ok")
        rec.kind("ok" if err is None else "rej")
        if err is None:
            rec.probe("dynamic-field-set" + ("" if plain_key else ":odd-key"))
            if self.prop == "C01" and plain_key:
                rec.check()
                got = getattr(owner, key)
                if canon(got) != canon(v):
                    rec.fail("C01/readback", "C01/readback-not-normalised/dyn/any", "dynamic %s = %r reads back %r" % (full, canon(v), canon(got)))
            if plain_key:
                self.check_frame(st, rec, s0, cfg, full, "dyn", "any")
        else:
            self.check_unchanged(st, rec, s0, cfg, "set-attr", "undeclared-key")
            if self.prop == "C06":
                rec.check()
                seen1 = look()
                if seen1 != seen0:
                    rec.fail("C06/unchanged", "C06/changed-by-rejected/set-%s/undeclared-key-readback" % op.get("via", "attr"),
                             "after the rejected assignment reading %s shows %r, before it showed %r" % (full, seen1, seen0))

    # ---- typed list operations
    def _item_value(self, st, node, path, spec):
        """Materialise one generated list element: raw value, map, or fresh configuration."""
        if "$raw" in spec:
            return dec(spec["$raw"]), None
        if "$move" in spec:
            src = ops.resolve(self._cur_cfg, spec["$move"])
            return list.__getitem__(src, 0), None
        tree = dec(spec["$tree"])
        if spec.get("as_config"):
            item = node["item"]
            fresh = st.B.types[item["type"]]() if item["kind"] == "configtype" else st.B.shared[item["ref"]]()
            fresh.load_tree(tree, validate=spec.get("validate", True))
            return fresh, tree
        return tree, tree

    def do_lop(self, st, cfg, c, op, rec):
        self._cur_cfg = cfg
        path, name = op["path"], op["name"]
        node = self.node_for(st, cfg, path)
        try:
            lst = ops.resolve(cfg, path)
        except Exception:  # noqa: BLE001
            lst = None
        if node is None or node["kind"] != "list" or type(lst).__name__ != "ListProxy":
            rec.log("lop", "skip")
            return
        item = node["item"]
        n = len(lst)
        route = "list-" + name
        try:
            if "v" in op:
                v, vtree = self._item_value(st, node, path, op["v"])
            if "vs" in op:
                pairs = [self._item_value(st, node, path, s) for s in op["vs"]]
                vs = [p[0] for p in pairs]
                if op.get("as") == "tuple":
                    vs = tuple(vs)
        except SeamGap:
            raise
        except Exception:  # noqa: BLE001 - a fresh item configuration could not be prepared
            rec.log("lop", "prep-failed")
            return
        s0 = snapshot.snap(cfg, st.serials)
        i = op.get("i", 0)
        if name == "append":
            _, err = self._call(lambda: lst.append(v))
        elif name == "insert":
            _, err = self._call(lambda: lst.insert(i, v))
        elif name == "setitem":
            if not (-n <= i < n) and self.prop != "C06":
                rec.log("lop", "skip-index")
                return
            _, err = self._call(lambda: lst.__setitem__(i, v))       # (C06: a replacement at an index that does not exist is a rejected one)
        elif name == "extend":
            _, err = self._call(lambda: lst.extend(vs))
        elif name == "iadd":
            _, err = self._call(lambda: lst.__iadd__(vs))
        elif name == "slice_set":
            a, b = min(op.get("a", 0), n), min(op.get("b", 0), n)
            _, err = self._call(lambda: lst.__setitem__(slice(a, b), vs))
        elif name == "pop":
            _, err = self._call(lambda: lst.pop(i) if n else lst.pop())
        elif name == "delitem":
            _, err = self._call(lambda: lst.__delitem__(i))
        elif name == "clear":
            _, err = self._call(lst.clear)
        elif name == "reverse":
            _, err = self._call(lst.reverse)
        elif name == "imul":
            _, err = self._call(lambda: lst.__imul__(op.get("n", 1)))
        elif name == "copy_discard":
            # read-only uses of the list: a copy and a concatenation whose results are thrown away
            _, err = self._call(lambda: (lst.copy(), lst + [], list(lst))[0] and None)
        elif name == "remove_first":
            _, err = self._call(lambda: lst.remove(list.__getitem__(lst, 0)) if n else None)
        else:
            rec.log("lop", "unknown")
            return
        rec.log("lop", path, name, type(err).__name__ if err else "ok")
        rec.kind(name + (":ok" if err is None else ":rej"))
        if self.prop == "C15" and err is not None and schema.is_cfg_node(item) and name in ("append", "extend", "iadd") and not op.get("faults"):
            # a value rejected inside a configuration that is being added to a list of configurations: the error names
            # the item by the index it would get (the list grows as the new items are taken one by one)
            specs = [op["v"]] if name == "append" else list(op.get("vs", []))
            inode = schema.sub_schema_node(st.sd, item)
            found, open_ = [], False
            for k, sp in enumerate(specs):
                if "$tree" not in sp or sp.get("as_config"):
                    open_ = True          # ready-made objects and non-maps: which error comes first is not modelled
                    break
                r, u = self.judge_tree(st, inode, dec(sp["$tree"]), "%s[%d]." % (path, n + k), fresh_top=True)
                found += r
                open_ = open_ or u
                if r:
                    break
            # (in-place list operations are not among the routes whose exception type C15 fixes; when the rejection does
            # come as a validation error, the field it names must be the right one)
            # in-place insertion is not one of C15's routes (assignment, constructor keyword, tree / document load): observed only
            if len(found) == 1 and not open_ and isinstance(err, ValidationError):
                rec.probe("list-insertion-rejected:path-%s:%s" % ("as-expected" if getattr(err, "ref_path", None) == found[0][0] else "differs", name))
        if name in SINGLE_LIST_OPS:
            rec.relevant += 1
            if err is not None:
                rec.probe("list-single-rejected")
                if "v" in op and isinstance(op["v"], dict) and op["v"].get("validate") is False:
                    rec.probe("list-item-rejected-as-a-whole:" + name)
                self.check_unchanged(st, rec, s0, cfg, route, item["kind"])
            else:
                rec.probe("list-single-accepted")
                if self.prop == "C01" and not schema.is_cfg_node(item):
                    rec.check()
                    exp = model.norm(item, v, st.ctx)
                    idx = n if name == "append" else (max(0, min(n, i if i >= 0 else n + i)) if name == "insert" else (i if i >= 0 else n + i))
                    if isinstance(exp, OK) and len(lst) > idx and not ops.matches(exp.v, list.__getitem__(lst, idx)):
                        rec.fail("C01/readback", "C01/list-item-not-normalised/%s/%s" % (name, item["kind"]),
                                 "%s.%s(%r): element %d is %r, normalised form is %r" % (path, name, canon(v), idx, canon(list.__getitem__(lst, idx)), exp.v))
                self.check_frame(st, rec, s0, cfg, path, route, item["kind"])

    # ---- typed dict operations
    def do_dop(self, st, cfg, c, op, rec):
        path, name = op["path"], op["name"]
        node = self.node_for(st, cfg, path)
        try:
            d = ops.resolve(cfg, path)
        except Exception:  # noqa: BLE001
            d = None
        if node is None or node["kind"] != "dict" or type(d).__name__ != "DictProxy":
            rec.log("dop", "skip")
            return
        route = "dict-" + name
        s0 = snapshot.snap(cfg, st.serials)
        pairs = [(dec(a), dec(b)) for a, b in op.get("pairs", [])]
        try:
            k = dec(op["k"]) if "k" in op else None
            hash(k)
            for a, _ in pairs:
                hash(a)
        except TypeError:
            rec.log("dop", "unhashable")
            return
        v = dec(op["v"]) if "v" in op else None
        if name == "setitem":
            _, err = self._call(lambda: d.__setitem__(k, v))
        elif name == "setdefault":
            _, err = self._call(lambda: d.setdefault(k, v))
        elif name == "update_dict":
            _, err = self._call(lambda: d.update(dict(pairs)))
        elif name == "update_pairs":
            _, err = self._call(lambda: d.update(list(pairs)))
        elif name == "update_kwargs":
            _, err = self._call(lambda: d.update(**{str(a): b for a, b in pairs}))
        elif name == "update_copy_kwargs":
            # a compatible proxy as the positional argument together with keyword entries
            _, err = self._call(lambda: d.update(d.copy(), **{str(a): b for a, b in pairs}))
        elif name == "ior":
            _, err = self._call(lambda: d.__ior__(dict(pairs)))
        elif name == "pop":
            _, err = self._call(lambda: d.pop(k, None))
        elif name == "delitem":
            _, err = self._call(lambda: d.__delitem__(k))
        elif name == "clear":
            _, err = self._call(d.clear)
        elif name == "popitem":
            _, err = self._call(d.popitem)
        else:
            rec.log("dop", "unknown")
            return
        rec.log("dop", path, name, type(err).__name__ if err else "ok")
        rec.kind(name + (":ok" if err is None else ":rej"))
        if (self.prop == "C15" and isinstance(err, ValidationError) and name in ("setitem", "setdefault") and not op.get("faults")
                and node.get("kf", {"kind": "any"})["kind"] != "bytes" and type(k) in (str, int, bool, tuple)):
            # an entry rejected while it is put into a typed dict in place: when the rejection comes as a validation error it
            # names this dict, under the configuration that holds it now, and the entry's key (cf. list insertions)
            kf = node.get("kf") or {"kind": "any", "o": {}}
            vf = node.get("vf") or {"kind": "any", "o": {}}
            rk, rv = model.norm(kf, k, st.ctx), model.norm(vf, v, st.ctx)
            if REJ in (rk, rv) and UNSPEC not in (rk, rv):
                # (in-place insertion is not one of C15's routes: observed only)
                rec.probe("dict-insertion-rejected:path-%s" % ("as-expected" if getattr(err, "ref_path", None) == "%s[%s]" % (path, str(k)) else "differs"))
        if name in SINGLE_DICT_OPS:
            rec.relevant += 1
            if err is not None:
                rec.probe("dict-single-rejected")
                self.check_unchanged(st, rec, s0, cfg, route, "entry")
            else:
                rec.probe("dict-single-accepted")
                self.check_frame(st, rec, s0, cfg, path, route, "entry")

    def do_noop(self, st, cfg, c, op, rec):
        rec.log("noop")

    # =========================================================================== shrinking
    def shrink_header(self, header, ops_):
        """Drop schema fields that no remaining operation mentions."""
        import copy
        used = set()
        text = repr(ops_)
        sd = header["sd"]

        def prune(node):
            changed = False
            keep = []
            for f in node["fields"]:
                if f["kind"] == "schema":
                    if prune(f):
                        changed = True
                if ("'%s'" % f["key"]) in text or ("%s." % f["key"]) in text or (".%s" % f["key"]) in text or f["kind"] in ("schema", "configtype") and f["key"] in text:
                    keep.append(f)
                else:
                    changed = True
            if keep and len(keep) != len(node["fields"]):
                node["fields"] = keep
            elif not keep:
                changed = False
            return changed

        h2 = copy.deepcopy(header)
        if prune(h2["sd"]["root"]):
            yield h2, ops_
        if header.get("ncfg", 1) > 1 and all(o.get("cfg", 0) == 0 for o in ops_):
            h3 = copy.deepcopy(header)
            h3["ncfg"] = 1
            yield h3, ops_
        for i, o in enumerate(ops_):
            if o.get("faults"):
                continue
            # simplify option dicts of leaves is left to the reader; try dropping defaults instead
        del used


SCENARIOS = {p: StateScenario(p) for p in ("C01", "C06", "C12", "C15")}
C01, C06, C12, C15 = (SCENARIOS[p] for p in ("C01", "C06", "C12", "C15"))
