"""C16 -- all ways of naming a field agree; command-line overrides touch only what's given.

At arbitrary states of a history (valid mutations from the `state` scenario): enumeration vs dotted
lookup vs attribute access vs reference path vs membership vs dotted assignment; the generated
argument parser's options vs the model's; real argv lists through the parser and
cmdline_args_override with every kind of ignore list, judged by snapshot frame conditions.
"""
import argparse

from cincoconfig.core import Config, Schema, ValidationError
from cincoconfig.support import cmdline_args_override, generate_argparse_parser, get_all_fields, item_ref_path

from .. import model, ops, schema, snapshot, values
from ..codec import canon, dec, enc
from ..engine import stream
from ..model import OK, REJ
from ..world import SeamGap
from .state import St, StateScenario

STR_KINDS = ("string", "loglevel", "appmode", "ipv4addr", "ipv4net", "hostname", "filename", "url", "secure", "include")
INT_KINDS = ("int", "port")
BOOL_KINDS = ("bool", "featureflag")


def option_of(path):
    return "--" + path.replace(".", "-").replace("_", "-").lower()


class NamingScenario(StateScenario):
    name = "naming"
    max_ops = 24

    def __init__(self):
        super().__init__("C16")

    def gen_cfg(self, rng):
        kinds = ["string", "int", "float", "bool", "port", "loglevel", "appmode", "ipv4addr", "url", "hostname", "secure", "bytes",
                 "list", "dict", "challenge", "any", "ipv4net"]
        return schema.GenCfg(rng, kinds=[k for k in kinds if rng.random() < 0.7] or ["int", "bool"], depth=rng.choice([0, 1, 2, 3]),
                             width=rng.randint(2, 6), p_validator=0.0, p_required=0.0, filename_fs=False, virtual=rng.random() < 0.3,
                             p_configtype=rng.choice([0.0, 0.15]), p_list_schema=rng.choice([0.0, 0.15]),
                             p_dynamic=rng.choice([0.0, 0.2, 0.4]), p_empty_section=rng.choice([0.0, 0.3, 0.5]))

    def weights(self, rng):
        return {"set": 4, "load_tree": 1, "lop": 1, "reset": 1, "names": 2, "dotted_set": 3, "cmdline": 6, "parser": 1}

    def header(self, seed, avoid):
        h = super().header(seed, avoid)
        h["p_invalid"] = 0.0
        h["p_fault"] = 0.0
        h["ncfg"] = 1
        h["p_bad_arg"] = stream(seed, "c16").choice([0.0, 0.15, 0.3])
        keys = {f["key"] for f in h["sd"]["root"]["fields"]}
        if stream(seed, "c16-pair").random() < 0.3 and not keys & {"vhi", "vlo"}:
            # two fields whose validators read each other ("low must not exceed high"): options are applied one by one, in
            # the order the parser declares them, each through normal validation against the configuration as it is then
            h["sd"]["root"]["fields"][:0] = [{"kind": "int", "key": "vhi", "o": {"default": 100}, "validator": "ge:vlo"},
                                             {"kind": "int", "key": "vlo", "o": {"default": 10}, "validator": "le:vhi"}]
        # a third of the schemas are bound to the environment, with some of the variables set to valid values: options
        # supplied on the command line are assignments and override them like any other value
        erng = stream(seed, "c16-env")
        if erng.random() < 0.33:
            from .environment import env_names
            from ..world import World
            sd = h["sd"]
            sd["root"]["env"] = erng.choice([True, "APP"])
            w = World(seed)
            values.seed_world(w)
            ctx = values.Ctx(w)
            env = {}
            names = env_names(sd)
            for path, name in sorted(names.items()):
                if list(names.values()).count(name) > 1:
                    continue          # two fields sharing one derived name: a value valid for one need not be valid for the other
                node = schema.node_at(sd, path)
                if node is not None and str(node.get("validator", "")).startswith(("ge:", "le:")):
                    continue
                if node is None or node["kind"] not in STR_KINDS + INT_KINDS + BOOL_KINDS + ("float",) or node["kind"] in ("include", "filename", "featureflag"):
                    continue
                if erng.random() < 0.5:
                    for _ in range(10):
                        v = values.gen_value(erng, node, "valid", ctx)
                        if isinstance(v, str) and v and "\x00" not in v and isinstance(model.norm(node, v, ctx), OK):
                            env[name] = v
                            break
            h["env"] = env
        return h

    def start(self, header, world, rec):
        world.env.update(header.get("env", {}))
        st = super().start(header, world, rec)
        def live(name):
            try:
                return getattr(st.cfgs[0], name)
            except Exception:  # noqa: BLE001
                return None
        st.ctx.live = live
        return st

    def _want(self, st, rng):
        return "valid"

    # ------------------------------------------------------------------ model enumeration
    def model_fields(self, st, node=None, prefix=""):
        """[(path, node)] in declaration order, recursing into nested schemas only (what
        get_all_fields documents); appmode helper fields are expected right after their field."""
        node = node or st.sd["root"]
        out = []
        for f in node["fields"]:
            p = prefix + f["key"]
            out.append((p, f))
            if f["kind"] == "appmode" and f.get("o", {}).get("create_helpers", True):
                for mode in f.get("o", {}).get("modes") or model.APP_MODES:
                    out.append((prefix + "is_%s_mode" % mode, {"kind": "virtual", "key": "is_%s_mode" % mode, "o": {}, "helper": True}))
            if f["kind"] == "schema":
                out += self.model_fields(st, f, p + ".")
        # a key added twice keeps its first position (two application-mode fields in one schema share the
        # names of their helper fields)
        seen, dedup = set(), []
        for p, f in out:
            if p not in seen:
                seen.add(p)
                dedup.append((p, f))
        return dedup

    def scalar_options(self, st):
        """dest -> ('store'|'bool', node) the generated parser must offer."""
        out = {}
        for p, f in self.model_fields(st):
            if f["kind"] in STR_KINDS or f["kind"] in INT_KINDS or f["kind"] == "float":
                out[p] = ("store", f)
            elif f["kind"] in BOOL_KINDS:
                out[p] = ("bool", f)
        return out

    # ------------------------------------------------------------------ generation
    def gen_names(self, st, rng, cfg, tgts, cfgpaths, owners):
        return {"op": "names"}

    def gen_parser(self, st, rng, cfg, tgts, cfgpaths, owners):
        return {"op": "parser", "on": rng.choice(["schema", "config"])}

    def gen_dotted_set(self, st, rng, cfg, tgts, cfgpaths, owners):
        leaves = [(p, f) for p, f in self.model_fields(st) if f["kind"] not in ("schema", "configtype", "virtual", "method")]
        if not leaves:
            return None
        p, f = rng.choice(leaves)
        v = values.gen_value(rng, f, "valid" if rng.random() < 0.75 else "invalid", st.ctx)
        return {"op": "dotted_set", "path": p, "v": enc(v)}

    def gen_cmdline(self, st, rng, cfg, tgts, cfgpaths, owners):
        opts = self.scalar_options(st)
        argv, supplied = [], []
        names = sorted(opts)
        rng.shuffle(names)
        k = rng.choice([0, 0, 1, 1, 2, 3, len(names)])
        if "vhi" in opts and "vlo" in opts and rng.random() < 0.35:
            # both ends moved at once: each new value is only acceptable once the other one (declared first) is in place
            hi = getattr(cfg, "vhi", None)
            if isinstance(hi, int):
                argv += ["--vhi", str(hi + 100), "--vlo", str(hi + 50)]
                supplied += ["vhi", "vlo"]
                names = [n for n in names if n not in ("vhi", "vlo")]
        for dest in names[:k]:
            how, f = opts[dest]
            if how == "bool":
                on = rng.random() < 0.5
                argv.append(option_of(dest) if on else "--no-" + option_of(dest)[2:])
                if rng.random() < 0.2:
                    # both switches of one field (a wrapper's default followed by the user's choice): the last one counts
                    argv.append(option_of(dest) if not on else "--no-" + option_of(dest)[2:])
                supplied.append(dest)
            else:
                bad = rng.random() < st.h.get("p_bad_arg", 0)
                for _ in range(20):
                    v = values.gen_value(rng, f, "invalid" if bad else "valid", st.ctx)
                    if isinstance(v, bool) or v is None:
                        continue
                    s = v if isinstance(v, str) else (repr(v) if isinstance(v, float) else str(v)) if isinstance(v, (int, float)) else None
                    if s is None or s.startswith("-") or s == "":
                        continue
                    r = model.norm(f, s, st.ctx)
                    if (bad and r == REJ) or (not bad and isinstance(r, OK)):
                        argv += [option_of(dest), s]
                        supplied.append(dest)
                        break
        ign = rng.choice(["none", "none", "str", "list", "list-all", "unknown"])
        ignore = None
        if ign == "str" and supplied:
            ignore = rng.choice(supplied)
        elif ign == "list" and supplied:
            ignore = rng.sample(supplied, rng.randint(1, len(supplied)))
        elif ign == "list-all":
            ignore = list(supplied)
        elif ign == "unknown":
            ignore = ["no.such.dest"]
        return {"op": "cmdline", "argv": argv, "ignore": ignore, "on": rng.choice(["schema", "config", "schema-method"]),
                "method": rng.random() < 0.3}

    # ------------------------------------------------------------------ execution
    def apply(self, st, op, rec):
        k = op["op"]
        if k in ("names", "parser", "dotted_set", "cmdline"):
            getattr(self, "do_" + k)(st, st.cfgs[0], op, rec)
            return
        super().apply(st, op, rec)

    def do_names(self, st, cfg, op, rec):
        root = st.B.root
        got, err = self._call(lambda: get_all_fields(root))
        rec.log("names", type(err).__name__ if err else len(got))
        rec.relevant += 1
        rec.check()
        if err is not None:
            rec.fail("C16/enumeration", "C16/get-all-fields-raises/%s" % type(err).__name__, "get_all_fields raised %r" % (err,))
        want = self.model_fields(st)
        gp = [g[0] for g in got]
        wp = [w[0] for w in want]
        if gp != wp:
            rec.fail("C16/enumeration", "C16/enumerated-paths-differ", "get_all_fields lists %r, the schema declares %r" % (gp, wp))
        if hasattr(type(root), "get_all_fields"):
            # deprecated spelling (announced for removal): exercised when present, never judged
            with schema._quiet():
                got3, e3 = self._call(lambda: root.get_all_fields())
            if e3 is None and [g[0] for g in got3] == gp:
                rec.probe("deprecated-enumeration-agrees")
        got2, _ = self._call(lambda: get_all_fields(cfg))
        if got2 is not None and [g[0] for g in got2] != gp:
            rec.fail("C16/enumeration", "C16/config-enumeration-differs", "get_all_fields(config) differs from get_all_fields(schema)")
        for (path, sch, field), (_, node) in zip(got, want):
            rec.check()
            f2, e2 = self._call(lambda: root[path])
            if e2 is not None or f2 is not field:
                rec.fail("C16/lookup", "C16/schema-lookup-differs/%s" % node["kind"], "schema[%r] is %r, enumeration reported %r" % (path, f2 if e2 is None else e2, field))
            if hasattr(type(field), "full_path"):
                with schema._quiet():
                    fp_, e4 = self._call(lambda: field.full_path)
                if e4 is None and fp_ == path:
                    rec.probe("deprecated-full-path-agrees")
            rp, e3 = self._call(lambda: item_ref_path(field))
            if e3 is not None or rp != path:
                rec.fail("C16/refpath", "C16/reference-path-differs/%s" % node["kind"], "item_ref_path gives %r for the field enumerated as %r" % (rp if e3 is None else e3, path))
            if node["kind"] == "method":
                continue
            a, ea = self._call(lambda: cfg[path])
            b, eb = self._call(lambda: ops.resolve(cfg, path))
            if (ea is None) != (eb is None) or (ea is None and not (a is b or canon(a) == canon(b) if not isinstance(a, Config) else a is b)):
                rec.fail("C16/lookup", "C16/config-lookup-differs/%s" % node["kind"], "config[%r] gives %r, attribute access gives %r" % (path, a if ea is None else ea, b if eb is None else eb))
            if node["kind"] not in ("virtual", "method"):
                inn, ei = self._call(lambda: path in cfg)
                if ei is not None or inn is not True:
                    rec.fail("C16/membership", "C16/membership-differs/%s" % node["kind"], "%r in config is %r" % (path, inn if ei is None else ei))
        rec.probe("names-checked", len(got))

    def do_dotted_set(self, st, cfg, op, rec):
        path = op["path"]
        node = self.node_for(st, cfg, path)
        if node is None:
            rec.log("dotted_set", "skip")
            return
        v = dec(op["v"])
        # twin configuration in the same state: a fresh one loaded with this one's tree would lose identity
        # information, so the same configuration is used twice: dotted assignment first, then (after restoring)
        # chained attribute assignment; both must give the same snapshot and outcome
        opath, key = ops.split_last(path)
        s0 = snapshot.snap(cfg, None)
        old = ops.resolve(cfg, path)
        flag0 = snapshot.sub_snapshot(snapshot.snap(cfg, None), path)
        _, e1 = self._call(lambda: cfg.__setitem__(path, v))
        s1 = snapshot.snap(cfg, None)
        v1 = None if e1 else ops.resolve(cfg, path)
        owner = ops.resolve(cfg, opath)
        _, e2 = self._call(lambda: setattr(owner, key, v))
        s2 = snapshot.snap(cfg, None)
        v2 = None if e2 else ops.resolve(cfg, path)
        rec.log("dotted_set", path, canon(v), type(e1).__name__ if e1 else "ok")
        rec.kind("ok" if e1 is None else "rej")
        rec.relevant += 1
        rec.check()
        if (e1 is None) != (e2 is None) or (e1 is not None and type(e1) is not type(e2)):
            rec.fail("C16/assignment", "C16/dotted-vs-attribute-outcome/%s" % node["kind"],
                     "config[%r] = v %s, chained attribute assignment %s" % (path, "raised %r" % (e1,) if e1 else "succeeded", "raised %r" % (e2,) if e2 else "succeeded"))
        if e1 is None:
            exp = model.norm(node, v, st.ctx)
            # values with a fresh salt per assignment differ between the two assignments by construction
            both_digest = (type(v1).__name__ == "DigestValue" and type(v2).__name__ == "DigestValue") or node["kind"] in ("list", "dict") and (
                (node.get("item") or {}).get("kind") == "challenge" or (node.get("vf") or {}).get("kind") == "challenge"
                or (node.get("kf") or {}).get("kind") == "challenge")
            if not both_digest and snapshot.strip_under(s1, path) != snapshot.strip_under(s2, path):
                rec.fail("C16/assignment", "C16/dotted-vs-attribute-state/%s" % node["kind"], "dotted and attribute assignment of %s left different states" % path)
            if not both_digest and canon(v1) != canon(v2):
                rec.fail("C16/assignment", "C16/dotted-vs-attribute-value/%s" % node["kind"], "dotted assignment stored %r, attribute assignment %r" % (canon(v1), canon(v2)))
            if isinstance(exp, OK) and not ops.matches(exp.v, v1):
                rec.fail("C16/assignment", "C16/dotted-assignment-not-normalised/%s" % node["kind"], "config[%r] = %r stored %r, normal form %r" % (path, canon(v), canon(v1), exp.v))
            if snapshot.strip_under(s0, path) != snapshot.strip_under(s1, path):
                d = snapshot.diff(snapshot.strip_under(s0, path), snapshot.strip_under(s1, path))
                rec.fail("C16/assignment", "C16/dotted-assignment-changed-other-field", "config[%r] = v changed %s" % (path, d[0]))
        del old, flag0

    def parser_for(self, st, cfg, on):
        target = st.B.root if on == "schema" else cfg
        if on == "schema-method" and hasattr(type(st.B.root), "generate_argparse_parser"):
            with schema._quiet():
                return self._call(lambda: st.B.root.generate_argparse_parser(prog="sim", add_help=False))
        return self._call(lambda: generate_argparse_parser(target, prog="sim", add_help=False))

    def do_parser(self, st, cfg, op, rec):
        parser, err = self.parser_for(st, cfg, op.get("on", "schema"))
        rec.log("parser", type(err).__name__ if err else "ok")
        rec.relevant += 1
        rec.check()
        if err is not None:
            rec.fail("C16/parser", "C16/parser-generation-raises/%s" % type(err).__name__, "generate_argparse_parser raised %r" % (err,))
        self.check_parser(st, parser, rec)

    def check_parser(self, st, parser, rec):
        want = self.scalar_options(st)
        seen = {}
        for act in parser._actions:
            for s in act.option_strings:
                seen.setdefault(act.dest, []).append((s, type(act).__name__, act.default))
        rec.check()
        for dest, (how, f) in want.items():
            o = option_of(dest)
            got = sorted(s for s, _, _ in seen.get(dest, []))
            exp = sorted([o, "--no-" + o[2:]]) if how == "bool" else [o]
            if got != exp:
                rec.fail("C16/parser", "C16/parser-options-differ/%s/%s" % (how, f["kind"]),
                         "field %s (%s): the parser offers %r, expected %r" % (dest, f["kind"], got, exp))
        extra = sorted(set(seen) - set(want))
        if extra:
            rec.fail("C16/parser", "C16/parser-offers-non-scalar", "the parser offers options for %r which are not scalar fields" % (extra,))
        rec.probe("parser-options-checked", len(want))

    def do_cmdline(self, st, cfg, op, rec):
        parser, err = self.parser_for(st, cfg, op.get("on", "schema"))
        if err is not None:
            rec.fail("C16/parser", "C16/parser-generation-raises/%s" % type(err).__name__, "generate_argparse_parser raised %r" % (err,))
        argv = list(op["argv"])
        try:
            import contextlib
            import io
            with contextlib.redirect_stderr(io.StringIO()):
                ns = parser.parse_args(argv)
        except SystemExit:
            rec.log("cmdline", "argparse-usage-error")
            rec.probe("cmdline-usage-error")
            # every command line here consists of generated options with their values: the generated parser must take it
            table = self.scalar_options(st)
            known = {}
            for dest, (how, f) in table.items():
                known[option_of(dest)] = how
                if how == "bool":
                    known["--no-" + option_of(dest)[2:]] = "bool"
            i, wellformed = 0, True
            while i < len(argv):
                how = known.get(argv[i])
                if how is None or (how != "bool" and (i + 1 >= len(argv) or argv[i + 1].startswith("-"))):
                    wellformed = False
                    break
                i += 1 if how == "bool" else 2
            values_ok = True
            i = 0
            while wellformed and i < len(argv):
                how = known[argv[i]]
                if how != "bool":
                    dest = next(d for d in table if option_of(d) == argv[i])
                    import re as _re
                    node_ = table[dest][1]
                    if not isinstance(model.norm(dict(node_, validator=None), argv[i + 1], st.ctx), OK):
                        values_ok = False      # a parser may refuse an invalid value itself (type=int ...)
                    if node_["kind"] in ("int", "port") and not _re.fullmatch(r"\d+", argv[i + 1]):
                        values_ok = False      # ... or a spelling of a number that only the field's own conversion accepts
                    if node_["kind"] == "float" and not _re.fullmatch(r"\d+(\.\d+)?", argv[i + 1]):
                        values_ok = False
                i += 1 if how == "bool" else 2
            if wellformed and values_ok:
                rec.check()
                rec.fail("C16/parser", "C16/generated-parser-rejects-command-line", "the generated parser refused %r, which uses only generated options" % (argv,))
            return
        want = self.scalar_options(st)
        # what did the user supply?  walk argv with the model's option table
        by_opt = {}
        for dest, (how, f) in want.items():
            o = option_of(dest)
            by_opt[o] = (dest, how, True)
            if how == "bool":
                by_opt["--no-" + o[2:]] = (dest, how, False)
        supplied = {}
        i = 0
        while i < len(argv):
            ent = by_opt.get(argv[i])
            if ent is None:
                rec.log("cmdline", "unknown-option")
                return
            dest, how, val = ent
            if how == "bool":
                supplied[dest] = val
                i += 1
            else:
                supplied[dest] = argv[i + 1] if i + 1 < len(argv) else None
                i += 2
        ignore = op.get("ignore")
        ign = [ignore] if isinstance(ignore, str) else list(ignore or [])
        effective = {d: v for d, v in supplied.items() if d not in ign}
        s0 = snapshot.snap(cfg, st.serials)
        pre_pair = {n: getattr(cfg, n, None) for n in ("vhi", "vlo")} if "vhi" in want and "vlo" in want else None
        if op.get("method") and hasattr(type(cfg), "cmdline_args_override"):
            with schema._quiet():
                _, err = self._call(lambda: cfg.cmdline_args_override(ns, ignore=ignore))     # the method spelling
        else:
            _, err = self._call(lambda: cmdline_args_override(cfg, ns, ignore=ignore))
        s1 = snapshot.snap(cfg, st.serials)
        rec.log("cmdline", argv, ignore, type(err).__name__ if err else "ok")
        rec.kind("n%d:%s" % (min(len(supplied), 4), "ign" if ign else "noign"))
        rec.relevant += 1
        rec.check()
        verdicts = {d: model.norm(want[d][1], v, st.ctx) for d, v in effective.items() if d not in ("vhi", "vlo") or pre_pair is None}
        if pre_pair is not None:
            # the pair's validators read each other, so the outcome may depend on the order in which the supplied options
            # are applied, which the statement does not fix: a verdict is claimed only if both orders agree on it
            def simulate(order):
                cur, out, stopped = dict(pre_pair), {}, False
                for d, sib, ge in order:
                    if d not in effective:
                        continue
                    base = model.norm({"kind": "int", "o": {}}, effective[d], st.ctx)
                    if stopped:
                        out[d] = model.UNSPEC
                        continue
                    if not isinstance(base, OK):
                        out[d], stopped = REJ, True
                        continue
                    s_ = cur.get(sib)
                    if isinstance(s_, int) and ((base.v < s_) if ge else (base.v > s_)):
                        out[d], stopped = REJ, True
                    else:
                        out[d], cur[d] = base, base.v
                return out
            pair = (("vhi", "vlo", True), ("vlo", "vhi", False))
            one, two = simulate(pair), simulate(pair[::-1])
            for d in one:
                same = (isinstance(one[d], OK) and isinstance(two[d], OK) and one[d].v == two[d].v) or (one[d] == REJ and two[d] == REJ)
                verdicts[d] = one[d] if same else model.UNSPEC
        any_rej = any(r == REJ for r in verdicts.values())
        if err is None and any_rej:
            rec.fail("C16/override", "C16/invalid-argument-accepted", "an invalid command-line value was applied without error: %r" % (argv,))
        if err is not None:
            if not any_rej and all(isinstance(r, OK) for r in verdicts.values()):
                rec.fail("C16/override", "C16/valid-arguments-rejected/%s" % type(err).__name__, "cmdline_args_override(%r) raised %r" % (argv, err))
            if not isinstance(err, ValidationError) and any_rej:
                rec.fail("C16/override", "C16/invalid-argument-wrong-exception/%s" % type(err).__name__, "an invalid argument raised %r" % (err,))
        # frame: everything that was not supplied (or was ignored) is exactly as before
        a, b = s0, s1
        for d in effective:
            a, b = snapshot.strip_under(a, d), snapshot.strip_under(b, d)
        if a != b:
            df = snapshot.diff(a, b)
            rec.fail("C16/override", "C16/override-changed-unsupplied-field/%s" % ("empty-argv" if not argv else "ignored" if df[0] in ign else "other"),
                     "command line %r (ignore=%r) changed %s: %r -> %r" % (argv, ignore, df[0], df[1], df[2]))
        if err is None:
            for d, v in effective.items():
                r = verdicts[d]
                got = ops.resolve(cfg, d)
                if isinstance(r, OK) and not ops.matches(r.v, got):
                    rec.fail("C16/override", "C16/override-value-not-normalised/%s" % want[d][1]["kind"],
                             "option for %s given %r: the field holds %r, expected %r" % (d, v, canon(got), r.v))
            rec.probe("cmdline-applied", len(effective))
            if not argv:
                rec.probe("cmdline-empty")


SCENARIO = NamingScenario()
