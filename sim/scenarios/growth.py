"""Long-lived configurations whose schema keeps growing (plug-ins registering options on a shared schema object).

Actors: the application (declares fields and sub-schemas on the live schema at arbitrary points of the history), several
configurations of different age (built before / between / after the declarations), and the callers that assign to them by
attribute, item and dotted path.  The interleaving of "declare" and "assign" events over configurations of different age is
what the seed decides; nothing else in the state scenarios changes a schema after configurations exist.

Judged (C01 and C06 only, by the texts of those properties):
  * a call that raised (whatever the exception: a configuration older than a sub-schema legitimately answers KeyError for a
    path through that level) left every configuration observably unchanged                                    [C06, C01 frame]
  * a call that returned stored, at the declared field, a value that field accepts, and reading it back gives the field's
    normal form; no other field of any configuration changed                                                       [C01]
  * after every event every readable declared field holds nothing its field rejects -- except a value that was stored under
    that key *before* the key was declared (a dynamic schema accepted it as an undeclared key; what the later declaration
    means for it is not stated), until the next accepted assignment to that key on that configuration               [C01]
"""
from cincoconfig.core import Config, Schema

from .. import model, schema, snapshot, values
from ..codec import canon, dec, enc
from ..engine import Scenario, stream
from ..model import OK, REJ
from ..world import SeamGap

GROW_KEYS = ["g1", "g2", "g3"]
SUB_KEYS = ["n1", "n2"]


def _leaf(rng, key, ctx):
    kind = rng.choice(["int", "int", "string", "port", "bool", "float"])
    o = {}
    if kind == "int":
        lo = rng.choice([None, 0, -5, 10])
        if lo is not None:
            o["min"] = lo
        if rng.random() < 0.5:
            o["max"] = (lo or 0) + rng.choice([0, 1, 50])
    elif kind == "string":
        if rng.random() < 0.5:
            o["choices"] = ["a", "b", "cc"]
        elif rng.random() < 0.5:
            o["min_len"] = 2
            o["max_len"] = 4
    elif kind == "float":
        o["min"] = 0.5
    node = {"kind": kind, "key": key, "o": o}
    if rng.random() < 0.6:
        v = values.gen_value(rng, node, "valid", ctx)
        r = model.norm(node, v, ctx)
        if isinstance(r, OK) and r.v is not None:
            o["default"] = enc(r.v)
    return node


class St:
    pass


class GrowthScenario(Scenario):
    name = "growth"
    max_ops = 24

    def __init__(self, prop):
        self.prop = prop

    def header(self, seed, avoid):
        from ..world import World
        rng = stream(seed, "growth")
        w = World(seed)
        values.seed_world(w)
        ctx = values.Ctx(w)
        root = {"dynamic": rng.random() < 0.6, "fields": [_leaf(rng, "a", ctx), _leaf(rng, "b", ctx)]}
        if rng.random() < 0.8:
            root["fields"].append({"kind": "schema", "key": "s", "dynamic": rng.random() < 0.4, "fields": [_leaf(rng, "x", ctx)]})
        return {"root": root, "ncfg": rng.choice([1, 2]), "p_invalid": rng.choice([0.3, 0.5, 0.7]), "max_ops": rng.randint(4, self.max_ops),
                "avoid": sorted(avoid)}

    # ------------------------------------------------------------------ session
    def start(self, header, world, rec):
        import copy
        st = St()
        st.world = world
        values.seed_world(world)
        st.ctx = values.Ctx(world)
        st.h = header
        st.root = copy.deepcopy(header["root"])          # grows during the run: the case keeps the original
        st.sd = {"root": st.root, "shared": {}, "types": {}}
        st.B = schema.Built()
        st.S = self._build(st, st.root, "")
        st.serials = snapshot.Serials()
        st.cfgs = []
        st.stale = set()                                  # (cfg index, dotted path) stored before the key was declared
        for _ in range(header["ncfg"]):
            st.cfgs.append(st.S())
        self.invariant(st, rec, "construct")
        return st

    def _build(self, st, node, prefix):
        s = Schema(dynamic=node.get("dynamic", False))
        for f in node["fields"]:
            if f["kind"] == "schema":
                s[f["key"]] = self._build(st, f, prefix + f["key"] + ".")
            else:
                s[f["key"]] = schema.make_field(st.B, st.sd, f, prefix + f["key"])
        return s

    # ------------------------------------------------------------------ descriptor helpers
    def levels(self, st, node=None, prefix=""):
        node = node or st.root
        yield prefix, node
        for f in node["fields"]:
            if f["kind"] == "schema":
                yield from self.levels(st, f, (prefix + "." if prefix else "") + f["key"])

    def leaves(self, st):
        for p, node in self.levels(st):
            for f in node["fields"]:
                if f["kind"] != "schema":
                    yield (p + "." if p else "") + f["key"], f

    def schema_at(self, st, path):
        s = st.S
        for part in [x for x in path.split(".") if x]:
            s = s._get_field(part)
        return s

    def read(self, cfg, path):
        """-> (True, value) | (False, None) when this configuration has no such level / key."""
        cur = cfg
        for part in path.split("."):
            if not isinstance(cur, Config):
                return False, None
            try:
                cur = getattr(cur, part)
            except (AttributeError, KeyError):
                return False, None
        return True, cur

    # ------------------------------------------------------------------ generation
    def gen_op(self, st, rng):
        kinds = ["set"] * 6 + ["grow_leaf"] * 2 + ["grow_sub", "new_cfg", "dyn", "dyn"]
        for _ in range(6):
            k = rng.choice(kinds)
            c = rng.randrange(len(st.cfgs))
            if k == "new_cfg" and len(st.cfgs) < 4:
                return {"op": "new_cfg"}
            if k == "grow_leaf":
                lv = [(p, n) for p, n in self.levels(st)]
                p, node = rng.choice(lv)
                free = [g for g in GROW_KEYS if g not in {f["key"] for f in node["fields"]}]
                if free:
                    return {"op": "grow_leaf", "at": p, "node": _leaf(rng, rng.choice(free), st.ctx), "how": rng.choice(["attr", "item"])}
            if k == "grow_sub":
                free = [g for g in SUB_KEYS if g not in {f["key"] for f in st.root["fields"]}]
                if free:
                    return {"op": "grow_sub", "key": rng.choice(free), "node": _leaf(rng, rng.choice(["t", "u"]), st.ctx),
                            "how": rng.choice(["autovivify", "schema-object"]), "dynamic": rng.random() < 0.3}
            if k == "dyn":
                lv = [p for p, n in self.levels(st) if n.get("dynamic")]
                if lv:
                    p = rng.choice(lv)
                    return {"op": "dyn", "cfg": c, "at": p, "key": rng.choice(GROW_KEYS), "via": rng.choice(["attr", "item", "dotted"]),
                            "v": enc(rng.choice([1, "zz", -7, "7", [1, 2], None, 2.5, True, "a"]))}
            if k == "set":
                lv = list(self.leaves(st))
                path, node = rng.choice(lv)
                want = "invalid" if rng.random() < st.h["p_invalid"] else "valid"
                v = values.gen_value(rng, node, want, st.ctx)
                return {"op": "set", "cfg": c, "path": path, "via": rng.choice(["attr", "item", "dotted", "dotted"]), "v": enc(v)}
        return {"op": "noop"}

    # ------------------------------------------------------------------ execution
    def snaps(self, st):
        return [snapshot.snap(c, st.serials) for c in st.cfgs]

    def assign(self, cfg, path, via, v):
        head, _, last = path.rpartition(".")
        if via == "dotted" or (via == "item" and not head):
            cfg[path] = v
            return
        owner = cfg
        for part in [x for x in head.split(".") if x]:
            owner = getattr(owner, part)
        if via == "attr":
            setattr(owner, last, v)
        else:
            owner[last] = v

    def unchanged(self, st, rec, before, what, err):
        after = self.snaps(st)
        rec.check(len(after))
        for i, (a, b) in enumerate(zip(before, after)):
            d = snapshot.diff(a, b)
            if d:
                rec.fail(self.prop + "/unchanged", "%s/changed-by-rejected-op/growth/%s" % (self.prop, what.split(":")[0]),
                         "%s raised %s but configuration #%d changed at %s: %s -> %s" % (what, type(err).__name__, i, d[0], d[1], d[2]))

    def apply(self, st, op, rec):
        k = op["op"]
        if k == "noop":
            rec.log("noop")
            return
        if k == "new_cfg":
            st.cfgs.append(st.S())
            rec.log("new_cfg", len(st.cfgs))
            self.invariant(st, rec, "new_cfg")
            return
        if k in ("grow_leaf", "grow_sub"):
            self.do_grow(st, op, rec)
            self.invariant(st, rec, k)
            return
        c = op["cfg"] % len(st.cfgs)
        cfg = st.cfgs[c]
        v = dec(op["v"])
        if k == "dyn":
            lvnode = dict(self.levels(st)).get(op["at"])
            if lvnode is None or not lvnode.get("dynamic") or any(f["key"] == op["key"] for f in lvnode["fields"]):
                rec.log("dyn", "skip")
                return
            path = (op["at"] + "." if op["at"] else "") + op["key"]
            before = self.snaps(st)
            try:
                self.assign(cfg, path, op["via"], v)
                err = None
            except SeamGap:
                raise
            except Exception as exc:  # noqa: BLE001
                err = exc
            rec.log("dyn", c, path, op["via"], type(err).__name__ if err else "ok")
            if err is not None:
                self.unchanged(st, rec, before, "dyn:" + op["via"], err)
            else:
                rec.probe("undeclared-key-set")
                st.stale.discard((c, path))
            self.invariant(st, rec, "dyn")
            return
        # ---- set on a declared leaf
        node = dict(self.leaves(st)).get(op["path"])
        if node is None:
            rec.log("set", "skip")
            return
        path = op["path"]
        verdict = model.norm(node, v, st.ctx)
        present = self.read(cfg, path.rpartition(".")[0])[0] if "." in path else True
        before = self.snaps(st)
        try:
            self.assign(cfg, path, op["via"], v)
            err = None
        except SeamGap:
            raise
        except Exception as exc:  # noqa: BLE001
            err = exc
        rec.relevant += 1
        rec.log("set", c, path, op["via"], type(err).__name__ if err else "ok", "present" if present else "level-missing")
        what = "set:%s %s=%r" % (op["via"], path, canon(v))
        if err is not None:
            rec.probe("set-rejected" + ("" if present else ":through-undeclared-level"))
            if (c, path) in st.stale:
                rec.probe("set-rejected:key-older-than-declaration")
            self.unchanged(st, rec, before, what, err)
        else:
            rec.probe("set-accepted")
            rec.check()
            if verdict == REJ:
                rec.fail("C01/accepts", "C01/invalid-value-accepted/growth/%s" % node["kind"],
                         "%s on configuration #%d returned although field %s (%s %r) rejects the value" % (what, c, path, node["kind"], node["o"]))
            if (c, path) in st.stale:
                rec.probe("set-accepted:key-older-than-declaration")
                st.stale.discard((c, path))
            ok, got = self.read(cfg, path)
            if isinstance(verdict, OK) and not (ok and model.matches(verdict.v, got)):
                rec.fail("C01/readback", "C01/readback-differs/growth/%s" % node["kind"],
                         "%s on configuration #%d returned; reading it back gives %r, the field's normal form is %r"
                         % (what, c, canon(got) if ok else "<unreadable>", canon(verdict.v)))
            # frame: nothing else changed, in any configuration
            after = self.snaps(st)
            for i, (a, b) in enumerate(zip(before, after)):
                if i == c:
                    continue
                d = snapshot.diff(a, b)
                if d:
                    rec.fail("C01/frame", "C01/other-field-changed/growth/other-config",
                             "%s on configuration #%d changed configuration #%d at %s: %s -> %s" % (what, c, i, d[0], d[1], d[2]))
        self.invariant(st, rec, "set")

    def do_grow(self, st, op, rec):
        if op["op"] == "grow_leaf":
            lvnode = dict(self.levels(st)).get(op["at"])
            key = op["node"]["key"]
            if lvnode is None or any(f["key"] == key for f in lvnode["fields"]):
                rec.log("grow", "skip")
                return
            path = (op["at"] + "." if op["at"] else "") + key
            # values already stored under that (so far undeclared) key are older than the declaration
            for i, cfg in enumerate(st.cfgs):
                if self.read(cfg, path)[0]:
                    st.stale.add((i, path))
                    rec.probe("declared-over-existing-undeclared-key")
            node = dict(op["node"])
            lvnode["fields"].append(node)
            s = self.schema_at(st, op["at"])
            f = schema.make_field(st.B, st.sd, node, path)
            if op["how"] == "attr":
                setattr(s, key, f)
            else:
                s[key] = f
            rec.log("grow_leaf", path, node["kind"], op["how"])
            rec.probe("schema-grown:leaf")
        else:
            key = op["key"]
            if any(f["key"] == key for f in st.root["fields"]):
                rec.log("grow", "skip")
                return
            leaf = dict(op["node"])
            path = key + "." + leaf["key"]
            for i, cfg in enumerate(st.cfgs):           # an undeclared key of the same name on a dynamic root
                if self.read(cfg, key)[0]:
                    st.stale.add((i, key))
            st.root["fields"].append({"kind": "schema", "key": key, "dynamic": op.get("dynamic", False), "fields": [leaf]})
            f = schema.make_field(st.B, st.sd, leaf, path)
            if op["how"] == "autovivify" and not op.get("dynamic"):
                setattr(getattr(st.S, key), leaf["key"], f)
            else:
                sub = Schema(dynamic=op.get("dynamic", False))
                sub[leaf["key"]] = f
                st.S[key] = sub
            rec.log("grow_sub", path, leaf["kind"], op["how"])
            rec.probe("schema-grown:sub-schema")

    # ------------------------------------------------------------------ C01 invariant
    def invariant(self, st, rec, route):
        if self.prop != "C01":
            return
        for path, node in self.leaves(st):
            for i, cfg in enumerate(st.cfgs):
                if (i, path) in st.stale or any((i, p) in st.stale for p in self._prefixes(path)):
                    continue
                ok, got = self.read(cfg, path)
                if not ok:
                    continue
                rec.check()
                if model.holds(node, got, st.ctx) is False:
                    rec.fail("C01/holds", "C01/invalid-value-held/growth/%s" % node["kind"],
                             "after %s: configuration #%d field %s (%s %r) holds %r which violates its declared constraints"
                             % (route, i, path, node["kind"], node["o"], canon(got)))

    @staticmethod
    def _prefixes(path):
        parts = path.split(".")
        return [".".join(parts[:n]) for n in range(1, len(parts))]


SCENARIOS = {p: GrowthScenario(p) for p in ("C01", "C06")}
