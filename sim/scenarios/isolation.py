"""C13 -- configurations of one schema share no state and never alter the schema.

Actors: A (receives the full operation mix), B1 (built before A's history, also mutated now and
then: the scheduler interleaves both directions), B2 (built after the history) and a control built
from a separate but identical schema instance that nobody touches.  After every step on one actor
the other actors' snapshots and the schema's snapshot (field set, public options, declared
defaults) must be unchanged; at the end B2 equals the control.
"""
import cincoconfig as cc
from cincoconfig.core import BaseField, Config, Field, Schema
from cincoconfig.support import get_all_fields

from .. import ops, schema, snapshot, values
from ..codec import canon, dec, enc
from ..engine import stream
from .state import St, StateScenario


def field_options(f):
    out = []
    for k, v in sorted(vars(f).items()):
        if k in ("_schema", "validator", "getter", "setter", "method", "field", "key_field", "value_field", "_default", "config_type",
                 "_fields", "_validators", "storage_type", "algorithm", "regex"):
            continue
        if isinstance(v, (BaseField, Config)) or callable(v):
            continue
        if k.startswith("_") and k not in ("_key", "_name", "_dynamic", "_env_prefix"):
            continue          # private state (caches, lazily computed attributes) is not a field option
        out.append((k, canon(v) if not isinstance(v, (list, dict, tuple)) else repr(v)))
    return out


def schema_snap(sch, depth=0):
    """Field set, public options and declared defaults of a schema, recursively (item schemas and
    config types included)."""
    rows = []
    if depth > 6:
        return rows
    for key, f in sch._fields.items():
        row = [key, type(f).__name__, field_options(f)]
        if isinstance(f, Schema):
            row.append(schema_snap(f, depth + 1))
        elif isinstance(f, cc.core.ConfigTypeField):
            row.append(schema_snap(f.config_type.__schema__, depth + 1))
        elif isinstance(f, Field):
            d = f._default
            row.append(("callable",) if callable(d) else snapshot.snap_value(d, None, False))
            inner = getattr(f, "field", None)
            if isinstance(inner, Schema):
                row.append(schema_snap(inner, depth + 1))
            elif isinstance(inner, type) and issubclass(inner, Config):
                row.append(schema_snap(inner.__schema__, depth + 1))
            elif isinstance(inner, Field):
                row.append(field_options(inner))
            for name in ("key_field", "value_field"):
                sub = getattr(f, name, None)
                if isinstance(sub, Field):
                    row.append((name, field_options(sub)))
        rows.append(row)
    return rows


class IsolationScenario(StateScenario):
    name = "isolation"
    max_ops = 30

    def __init__(self):
        super().__init__("C13")

    def gen_cfg(self, rng):
        return schema.GenCfg(rng, p_default=rng.choice([0.6, 0.9]), p_callable=rng.choice([0.0, 0.3]),
                             p_list_schema=rng.choice([0.2, 0.4]), p_configtype=rng.choice([0.1, 0.3]), p_dynamic=rng.choice([0.2, 0.5]),
                             kinds=[k for k in schema.LEAF_KINDS if k in ("list", "dict") or rng.random() < 0.45],
                             depth=rng.choice([1, 2, 2, 3]), p_validator=0.0)

    def weights(self, rng):
        return {"set": 4, "assign_sub": 2, "load_tree": 2, "loads": 1, "reset": 2, "lop": 6, "dop": 4, "ctor": 0.5, "dyn": 2, "deep": 2,
                "set_from": 2.5, "render": 2}

    def header(self, seed, avoid):
        h = super().header(seed, avoid)
        h["ncfg"] = 2
        h["p_invalid"] = 0.1
        h["p_fault"] = 0.0
        rng = stream(seed, "c13")
        h["p_b1"] = rng.choice([0.0, 0.15, 0.4])
        # a typed dict whose values are untyped lists, with a mutable default (in the quantifier: "mutable
        # defaults on typed fields")
        if "typed-dict-untyped-list-default" not in avoid and rng.random() < 0.35:
            dflt = {"k": [1, [2]], "j": []}
            how = rng.choice(["constant", "factory", "shared-factory"])
            if how != "constant":
                dflt = {"$call": dflt}
                if how == "shared-factory":
                    dflt["$shared"] = True
            h["sd"]["root"]["fields"].append({"kind": "list", "key": "LL", "o": {"default": {"$call": [[1], {"a": [2]}], "$shared": True}}})
            h["sd"]["root"]["fields"].append({"kind": "dict", "key": "DL", "o": {"default": dflt},
                                              "kf": {"kind": "string", "o": {}}, "vf": {"kind": "list", "o": {}}})
        # an include field plus untyped list / dict / any fields whose values come from one included file that every
        # configuration of the schema loads ("no sequence of ... loads ... on one configuration changes another")
        if rng.random() < 0.4:
            taken = {f["key"] for f in h["sd"]["root"]["fields"]}
            if not taken & {"INC", "UL", "UD", "UA"}:
                h["sd"]["root"]["fields"] += [{"kind": "include", "key": "INC", "o": {}}, {"kind": "list", "key": "UL", "o": {}},
                                              {"kind": "dict", "key": "UD", "o": {}}, {"kind": "any", "key": "UA", "o": {}}]
                h["inc"] = {"UL": [1, [2], {"k": [3]}], "UD": {"a": [1], "b": {"c": 2}}, "UA": rng.choice([[7, [8]], {"x": [9]}])}
        return h

    INC_FORMATS = ("json", "yaml", "bson", "pickle")

    def start(self, header, world, rec):
        st = super().start(header, world, rec)
        if header.get("inc"):
            for fmt in self.INC_FORMATS:
                world.poke("/inc/shared." + fmt, ops.write_doc(fmt, header["inc"], {}))
                world.poke("/data/main-inc." + fmt, ops.write_doc(fmt, {"INC": "/inc/shared." + fmt}, {}))
        st.Bc = schema.build(st.sd)
        st.control = st.Bc.root()
        st.control0 = snapshot.snap(st.control, None)
        # the reference for "the schema is unchanged" is a third build of the same descriptor from which no
        # configuration was ever created (building a configuration must not alter the schema either)
        st.Bz = schema.build(st.sd)
        st.schema0 = schema_snap(st.Bz.root)
        st.types0 = {n: schema_snap(t.__schema__) for n, t in st.Bz.types.items()}
        st.shared0 = {n: schema_snap(s) for n, s in st.Bz.shared.items()}
        self.check_schema(st, rec, "construct")
        return st

    def gen_op(self, st, rng):
        if st.h.get("inc") and rng.random() < 0.15:
            return {"op": "load_inc", "cfg": rng.randrange(2), "fmt": rng.choice(self.INC_FORMATS)}
        if st.h.get("inc") and rng.random() < 0.08:
            # a document with empty containers for the untyped fields (what a save writes for empty values), in any format
            return {"op": "load_inc", "cfg": rng.randrange(2), "fmt": rng.choice(list(self.INC_FORMATS) + ["xml", "xml"]), "empties": True}
        if len(st.cfgs) > 1 and rng.random() < 0.06:
            # the value tree of one configuration loaded into the other, in memory (no serialiser in between)
            return {"op": "transfer", "cfg": rng.randrange(2)}
        op = super().gen_op(st, rng)
        op["cfg"] = 1 if rng.random() < st.h.get("p_b1", 0) else 0
        return op

    def do_load_inc(self, st, cfg, c, op, rec):
        """Each configuration loads a main document that names the same, unchanged include file."""
        if op.get("empties"):
            doc = ops.write_doc(op["fmt"], {"UL": [], "UD": {}, "UA": []}, {})
            _, err = self._call(lambda: cfg.loads(doc, op["fmt"]))
            rec.log("load_empties", c, op["fmt"], type(err).__name__ if err else "ok")
            if err is None:
                rec.probe("empty-containers-loaded:" + op["fmt"])
            return
        _, err = self._call(lambda: cfg.load("/data/main-inc." + op["fmt"], op["fmt"]))
        rec.log("load_inc", c, op["fmt"], type(err).__name__ if err else "ok")
        if err is None:
            rec.probe("include-loaded:cfg%d" % c)

    def gen_deep(self, st, rng, cfg, tgts, cfgpaths, owners):
        """In-place mutation of a mutable value *inside* a typed container value."""
        cands = [t for t in tgts if t.node["kind"] == "dict" and (t.node.get("vf") or {}).get("kind") == "list" and isinstance(t.value, dict) and t.value]
        cands += [t for t in tgts if t.path == "LL" and isinstance(t.value, list) and t.value]
        plain = [t for t in tgts if type(t.value) in (list, dict) and "[" not in t.path]     # values of untyped fields (empty ones too)
        if plain and (not cands or rng.random() < 0.5):
            t = rng.choice(plain)
            return {"op": "deep", "path": t.path, "plain": True, "inner": rng.random() < 0.5, "v": rng.choice([9, "z", [3]])}
        if not cands:
            return None
        t = rng.choice(cands)
        if t.path == "LL":
            return {"op": "deep", "path": "LL", "k": 0, "v": rng.choice([9, "z", [3]])}
        key = rng.choice(sorted(dict.keys(t.value), key=repr))
        return {"op": "deep", "path": t.path, "k": enc(key), "v": rng.choice([9, "z", [3]])}

    def others(self, st, c):
        out = []
        for i, cfg in enumerate(st.cfgs):
            if i != c:
                out.append(("B1" if i == 1 else "A", cfg))
        out.append(("control", st.control))
        return out

    def apply(self, st, op, rec):
        c = op.get("cfg", 0) % len(st.cfgs)
        before = [(n, cfg, snapshot.snap(cfg, None)) for n, cfg in self.others(st, c)]
        if op["op"] == "deep":
            self.do_deep(st, st.cfgs[c], c, op, rec)
        elif op["op"] == "load_inc":
            self.do_load_inc(st, st.cfgs[c], c, op, rec)
        elif op["op"] == "transfer":
            src = st.cfgs[1 - c]
            tree, e1 = self._call(lambda: src.to_tree())
            err = e1
            if e1 is None:
                _, err = self._call(lambda: st.cfgs[c].load_tree(tree))
            rec.log("transfer", c, type(err).__name__ if err else "ok")
            if err is None:
                rec.probe("tree-transferred-in-memory")
        else:
            super().apply(st, op, rec)
        what = op["op"] + (":" + op["name"] if "name" in op else "")
        rec.check()
        rec.relevant += 1
        for n, cfg, s0 in before:
            if cfg not in st.cfgs and n != "control":
                continue   # replaced by a constructor operation
            s1 = snapshot.snap(cfg, None)
            if s1 != s0:
                d = snapshot.diff(s0, s1)
                rec.fail("C13/isolation", "C13/other-configuration-changed/%s/%s" % (what, n),
                         "%s on configuration %s changed configuration %s at %s: %r -> %r" % (what, "A" if c == 0 else "B1", n, d[0], d[1], d[2]))
        self.check_schema(st, rec, what)

    def check_schema(self, st, rec, what):
        rec.check()
        s1 = schema_snap(st.B.root)
        if s1 != st.schema0:
            rec.fail("C13/schema", "C13/schema-changed/%s" % what, "%s changed the schema (field set, options or declared defaults): %s"
                     % (what, self.first_diff(st.schema0, s1)))
        for n, t in st.B.types.items():
            if schema_snap(t.__schema__) != st.types0[n]:
                rec.fail("C13/schema", "C13/config-type-schema-changed/%s" % what, "%s changed the schema of config type %s: %s"
                         % (what, n, self.first_diff(st.types0[n], schema_snap(t.__schema__))))
        for n, s in st.B.shared.items():
            if schema_snap(s) != st.shared0[n]:
                rec.fail("C13/schema", "C13/item-schema-changed/%s" % what, "%s changed the shared item schema %s: %s"
                         % (what, n, self.first_diff(st.shared0[n], schema_snap(s))))

    def first_diff(self, a, b):
        ka, kb = [r[0] for r in a], [r[0] for r in b]
        if ka != kb:
            return "fields %r -> %r" % (ka, kb)
        for x, y in zip(a, b):
            if x != y:
                return "field %s: %r -> %r" % (x[0], x[1:], y[1:])
        return "?"

    def do_deep(self, st, cfg, c, op, rec):
        if op.get("plain"):
            # in-place mutation of the value of an untyped list / dict / any field (or of a mutable value inside it)
            try:
                d = ops.resolve(cfg, op["path"])
            except Exception:  # noqa: BLE001
                d = None
            if type(d) not in (list, dict):
                rec.log("deep", "skip")
                return
            tgt = d
            if op.get("inner"):
                inner = [x for x in (d if isinstance(d, list) else d.values()) if type(x) in (list, dict)]
                if inner:
                    tgt = inner[0]
            if isinstance(tgt, list):
                tgt.append(op["v"])
            else:
                tgt["added"] = op["v"]
            rec.log("deep", op["path"], "plain")
            rec.probe("deep-mutation:untyped")
            return
        try:
            d = ops.resolve(cfg, op["path"])
            inner = list.__getitem__(d, 0) if isinstance(d, list) else dict.__getitem__(d, dec(op["k"]))
        except Exception:  # noqa: BLE001
            rec.log("deep", "skip")
            return
        if not isinstance(inner, list):
            rec.log("deep", "skip")
            return
        inner.append(op["v"])
        rec.log("deep", op["path"])
        rec.probe("deep-mutation")

    def finish(self, st, rec):
        b2 = st.B.root()
        rec.check()
        for f in st.sd["root"]["fields"]:
            pass
        s2 = self.scrub(snapshot.snap(b2, None))
        sc = self.scrub(snapshot.snap(st.control, None))
        if s2 != sc:
            d = snapshot.diff(sc, s2)
            rec.fail("C13/fresh", "C13/configuration-built-after-history-differs",
                     "a configuration built after the history differs from one built from an untouched identical schema at %s: %r -> %r" % (d[0], d[1], d[2]))
        if self.scrub(snapshot.snap(st.control, None)) != self.scrub(st.control0):
            rec.fail("C13/isolation", "C13/control-changed", "the control configuration changed")
        self.check_schema(st, rec, "finish")
        rec.probe("b2-compared")

    def scrub(self, s):
        """Digest values created from a plaintext default have a fresh salt per configuration."""
        if isinstance(s, tuple) and s and s[0] == "digest":
            return ("digest", "*", "*", s[3])
        if isinstance(s, tuple):
            return tuple(self.scrub(x) for x in s)
        if isinstance(s, list):
            return [self.scrub(x) for x in s]
        return s


SCENARIO = IsolationScenario()
