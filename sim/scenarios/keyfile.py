"""C07 -- key files: used verbatim, created once, rejected if malformed, never retained.

Operates the real ``KeyFile`` class against SimFS.  The model is: the bytes of each key file on the
simulated disk, and per KeyFile object its context depth and the key it must be using.
"""
import base64  # noqa: F401
import posixpath

from cincoconfig.encryption import EncryptionError, KeyFile

from .. import refcrypto
from ..engine import Scenario, stream

PATHS = ["/keys/a.key", "/keys/b.key", "~/.simkey", "/nodir/c.key", "/ro/d.key", "rel.key"]
FILE_STATES = ["absent", "valid", "other", "empty", "short", "long"]
PLAINTEXTS = ["", "x", "hunter2!", "p" * 15, "q" * 16, "r" * 17, "s" * 31, "t" * 32, "u" * 33,
              "v" * 64, "éß中" * 5, "w" * 100]


def _keybytes(tag):
    import hashlib
    return hashlib.sha256(("key:%s" % tag).encode()).digest()


def _scan_for(obj, needle, depth=0, seen=None):
    """Does ``needle`` (bytes) occur in any bytes-like value reachable from obj's attributes?"""
    if seen is None:
        seen = set()
    if id(obj) in seen or depth > 6:
        return False
    seen.add(id(obj))
    if isinstance(obj, (bytes, bytearray, memoryview)):
        return needle in bytes(obj)
    if isinstance(obj, str):
        return needle.hex() in obj.lower()
    if isinstance(obj, dict):
        return any(_scan_for(k, needle, depth + 1, seen) or _scan_for(v, needle, depth + 1, seen)
                   for k, v in obj.items())
    if isinstance(obj, (list, tuple, set, frozenset)):
        return any(_scan_for(v, needle, depth + 1, seen) for v in obj)
    d = getattr(obj, "__dict__", None)
    if isinstance(d, dict) and type(obj).__module__.startswith("cincoconfig"):
        return _scan_for(d, needle, depth + 1, seen)
    return False


class Obj:
    def __init__(self, kf, path):
        self.kf = kf
        self.path = path
        self.depth = 0
        self.key = None       # the key the model says this object is using while depth > 0


class State:
    pass


class KeyFileScenario(Scenario):
    prop = "C07"
    name = "keyfile"
    max_ops = 25

    def header(self, seed, avoid):
        rng = stream(seed, "swarm")
        npaths = rng.randint(1, 3)
        paths = rng.sample(PATHS, npaths)
        if rng.random() < 0.7 and "/keys/a.key" not in paths:
            paths[0] = "/keys/a.key"
        init = {p: rng.choice(FILE_STATES) for p in paths}
        return {
            "paths": paths,
            "init": init,
            "fault_rate": rng.choice([0.0, 0.0, 0.1, 0.25]),
            "ext_rate": rng.choice([0.05, 0.15, 0.3]),
            "max_ops": rng.randint(6, self.max_ops),
        }

    # ------------------------------------------------------------------ world helpers
    def _set_file(self, world, path, st, tag):
        p = world.abspath(world.expanduser(path))
        if st == "absent":
            world.unlink_quiet(p)
        elif st == "valid":
            world.poke(p, _keybytes("valid:" + path))
        elif st == "other":
            world.poke(p, _keybytes("other:%s:%s" % (path, tag)))
        elif st == "empty":
            world.poke(p, b"")
        elif st == "short":
            world.poke(p, _keybytes("short:%s" % tag)[: 1 + (tag % 31)])
        elif st == "long":
            world.poke(p, (_keybytes("long:%s" % tag) * 2)[: 33 + (tag % 32)])
        else:
            raise ValueError(st)

    def start(self, header, world, rec):
        st = State()
        st.world = world
        st.header = header
        st.objs = []
        st.vault = []   # (key, method, SecureValue, plaintext bytes)
        st.created = {}  # abs path -> key created in-run
        world.dirs.add("/ro")
        world.unwritable.add("/ro")
        for i, (path, fs) in enumerate(header["init"].items()):
            if path.startswith("/nodir") or path.startswith("/ro"):
                continue
            self._set_file(world, path, fs, i)
        st.session = 0
        return st

    # ------------------------------------------------------------------ generation
    def gen_op(self, st, rng):
        h = st.header
        if not st.objs or (len(st.objs) < 3 and rng.random() < 0.12):
            return {"op": "kf_new", "path": rng.choice(h["paths"])}
        r = rng.random()
        if r < h["ext_rate"]:
            path = rng.choice(h["paths"])
            what = rng.choice(FILE_STATES + ["unreadable", "readable", "dir_ro", "dir_rw"])
            return {"op": "ext", "path": path, "state": what, "tag": rng.randint(0, 999)}
        if r < h["ext_rate"] + 0.05:
            return {"op": "restart"}
        i = rng.randrange(len(st.objs))
        o = st.objs[i]
        choices = ["enter", "enter", "exit", "encrypt", "encrypt", "decrypt"]
        if o.depth == 0:
            choices += ["enter", "enter"]
        else:
            choices += ["exit", "encrypt"]
        what = rng.choice(choices)
        if what == "exit" and o.depth == 0:
            what = "enter"
        if what == "decrypt" and not st.vault:
            what = "encrypt"
        op = {"op": what, "obj": i}
        if what == "enter":
            if rng.random() < h["fault_rate"]:
                op["faults"] = [{"seam": "open:r", "nth": 1, "errno": rng.choice(["EACCES", "EIO", "EMFILE"]),
                                 "kind": "open-err"}]
        elif what == "exit":
            op["exc"] = rng.random() < 0.3
        elif what == "encrypt":
            op["method"] = rng.choice(["aes", "xor", "best", "xor"])
            op["text"] = rng.choice(PLAINTEXTS)
            op["as_bytes"] = rng.random() < 0.3
        elif what == "decrypt":
            op["item"] = rng.randrange(len(st.vault))
        return op

    # ------------------------------------------------------------------ execution
    def apply(self, st, op, rec):
        w = st.world
        kind = op["op"]
        if kind == "kf_new":
            kf = KeyFile(op["path"])
            if len(st.objs) >= 3:
                st.objs.pop(0)
            st.objs.append(Obj(kf, op["path"]))
            rec.log("kf_new", op["path"])
            return
        if kind == "restart":
            st.objs = []
            st.session += 1
            rec.log("restart")
            rec.probe("restart")
            return
        if kind == "ext":
            self._ext(st, op, rec)
            return
        if not st.objs:
            rec.log("skip")
            return
        o = st.objs[op["obj"] % len(st.objs)]
        if kind == "enter":
            self._enter(st, o, op, rec)
        elif kind == "exit":
            self._exit(st, o, op, rec)
        elif kind == "encrypt":
            self._encrypt(st, o, op, rec)
        elif kind == "decrypt":
            self._decrypt(st, o, op, rec)
        else:
            raise ValueError(kind)

    def _ext(self, st, op, rec):
        w = st.world
        path = op["path"]
        p = w.abspath(w.expanduser(path))
        what = op["state"]
        if what in FILE_STATES:
            if posixpath.dirname(p) in w.dirs:
                self._set_file(w, path, what, op.get("tag", 0))
                rec.probe("ext:" + what)
        elif what == "unreadable":
            w.unreadable.add(p)
        elif what == "readable":
            w.unreadable.discard(p)
        elif what == "dir_ro":
            w.unwritable.add(posixpath.dirname(p))
        elif what == "dir_rw":
            if posixpath.dirname(p) != "/ro":
                w.unwritable.discard(posixpath.dirname(p))
        rec.log("ext", path, what)

    def _enter(self, st, o, op, rec):
        w = st.world
        p = w.abspath(w.expanduser(o.path))
        before = w.peek(p)
        parent = posixpath.dirname(p)
        faulted = bool(op.get("faults"))
        nfired = len(w.fired)
        try:
            ret = o.kf.__enter__()
            err = None
        except BaseException as exc:  # noqa: BLE001
            if type(exc).__name__ == "SeamGap":
                raise
            ret, err = None, exc
        after = w.peek(p)
        fired = len(w.fired) > nfired
        wrote = [e for e in w.step_journal() if e[2] in ("create", "truncate", "write", "replace", "remove") and e[3] == w.abspath(p)]
        rec.relevant += 1
        rec.log("enter", o.path, o.depth, None if before is None else len(before), type(err).__name__ if err else "ok")
        rec.check()
        if o.depth > 0:
            # nested entry: must succeed and keep the key in use; the file is not this call's business
            rec.probe("nested-enter")
            if err is not None:
                rec.fail("C07/nested", "C07/nested-enter-raises/%s" % type(err).__name__,
                         "entering an already open key context raised %r" % (err,))
            if wrote:
                rec.fail("C07/never-modified", "C07/nested-enter-writes", "nested entry wrote %r" % (wrote[:2],))
            o.depth += 1
            return
        # ---- outermost entry
        if before is not None and len(before) == 32:
            cls = "valid"
            rec.probe("enter:valid" + (":fault" if fired else "") + (":unreadable" if p in w.unreadable else ""))
            if after != before:
                rec.fail("C07/never-modified",
                         "C07/valid-key-modified/%s" % ("open-err" if fired else "unreadable" if p in w.unreadable else "plain"),
                         "a valid 32-byte key file was modified by __enter__ (%s): %s -> %s"
                         % ("read fault " + str(op.get("faults")) if fired else "unreadable" if p in w.unreadable else "no fault",
                            before.hex()[:16], None if after is None else after.hex()[:16]))
            if wrote:
                rec.fail("C07/never-modified", "C07/valid-key-written", "valid key file written: %r" % (wrote[:2],))
            if err is None:
                o.depth = 1
                o.key = before
                if fired or p in w.unreadable:
                    rec.probe("enter-succeeded-despite-read-fault")
            else:
                if not fired and p not in w.unreadable:
                    rec.fail("C07/verbatim", "C07/valid-key-rejected/%s" % type(err).__name__,
                             "entering with a valid readable key file raised %r" % (err,))
            return
        if before is not None:
            cls = "empty" if len(before) == 0 else "short" if len(before) < 32 else "long"
            nth = o.__dict__.setdefault("bad_attempts", 0) + 1
            o.bad_attempts = nth
            rec.probe("enter:%s:attempt%d" % (cls, min(nth, 3)))
            if fired or p in w.unreadable:
                # the size cannot be known to the library: no claim, only keep the model in step
                rec.probe("enter:malformed-unreadable")
                if err is None:
                    if after is None or len(after) != 32:
                        rec.fail("C07/reject-malformed", "C07/malformed-key-accepted/%s/unreadable" % cls,
                                 "entered with a key file of %s bytes" % (None if after is None else len(after)))
                    o.depth, o.key = 1, after
                return
            if after != before:
                rec.fail("C07/reject-malformed", "C07/malformed-key-overwritten/%s" % cls,
                         "a %d-byte key file was replaced instead of rejected" % len(before))
            if err is None:
                rec.fail("C07/reject-malformed",
                         "C07/malformed-key-accepted/%s/%s" % (cls, "first-attempt" if nth == 1 else "repeat-attempt"),
                         "entering with a %d-byte key file succeeded on attempt %d of this object" % (len(before), nth))
            if not isinstance(err, EncryptionError) and p not in w.unreadable and not fired:
                rec.fail("C07/reject-malformed", "C07/malformed-key-wrong-error/%s/%s" % (cls, type(err).__name__),
                         "a %d-byte key file was rejected with %r, not EncryptionError" % (len(before), err))
            return
        # ---- file absent
        creatable = parent in w.dirs and parent not in w.unwritable and p not in w.dirs
        rec.probe("enter:absent:%s" % ("creatable" if creatable else "uncreatable"))
        if creatable:
            if err is not None:
                rec.fail("C07/create-once", "C07/create-failed/%s" % type(err).__name__,
                         "missing key file in a writable directory: __enter__ raised %r" % (err,))
            draws = [d for d in w.step_draws() if d[2] == 32]
            if after is None or len(after) != 32:
                rec.fail("C07/create-once", "C07/created-key-bad-size",
                         "created key file holds %s bytes" % (None if after is None else len(after)))
            if not draws or after != draws[0][3] or len(draws) != 1:
                rec.fail("C07/create-once", "C07/created-key-not-the-entropy-draw",
                         "created key %s is not the single 32-byte entropy draw of this call (%d draws)"
                         % (after.hex()[:16], len(draws)))
            st.created[p] = after
            rec.probe("key-generated-in-run")
            o.depth = 1
            o.key = after
        else:
            if err is None:
                rec.fail("C07/create-once", "C07/uncreatable-key-entered",
                         "key file cannot exist (%s) yet __enter__ succeeded" % p)
            if after is not None:
                rec.fail("C07/create-once", "C07/uncreatable-key-created", "file appeared in unwritable place %s" % p)

    def _exit(self, st, o, op, rec):
        if o.depth == 0:
            rec.log("skip")
            return
        key = o.key
        if op.get("exc"):
            r = o.kf.__exit__(RuntimeError, RuntimeError("boom"), None)
        else:
            r = o.kf.__exit__(None, None, None)
        o.depth -= 1
        rec.log("exit", o.path, o.depth)
        rec.relevant += 1
        rec.check()
        if not r:
            rec.probe("exit-propagates-exceptions")
        if o.depth == 0:
            rec.probe("outermost-exit")
            if _scan_for(o.kf, key):
                rec.fail("C07/never-retained", "C07/key-retained-after-exit",
                         "key material still reachable from the KeyFile object after the outermost exit")
            o.key = None
        else:
            rec.probe("inner-exit")
            # still open: must still work with the same key (checked by later encrypt ops)

    def _encrypt(self, st, o, op, rec):
        text = op["text"]
        data = text.encode() if op.get("as_bytes") else text
        raw = text.encode()
        try:
            sv = o.kf.encrypt(data, method=op["method"])
            err = None
        except Exception as exc:  # noqa: BLE001
            sv, err = None, exc
        rec.log("encrypt", o.depth, op["method"], len(raw), type(err).__name__ if err else "ok")
        rec.relevant += 1
        rec.check()
        if o.depth == 0:
            rec.probe("encrypt-closed")
            if err is None:
                rec.fail("C07/context", "C07/encrypt-outside-context", "encrypt succeeded outside a key context")
            return
        if err is not None:
            rec.fail("C07/context", "C07/encrypt-inside-context-raises/%s" % type(err).__name__,
                     "encrypt(%s) inside an open context raised %r" % (op["method"], err))
        method = sv.method
        want = "xor" if op["method"] == "xor" else "aes"
        if method not in ("aes", "xor"):
            rec.probe("method-not-concrete")          # C08's claim; without a concrete method there is nothing to decrypt with here
            return
        self._check_uses_key(o.key, method, sv.ciphertext, raw, rec, "encrypt")
        st.vault.append((o.key, method, sv, raw))
        if len(st.vault) > 12:
            st.vault.pop(0)

    def _check_uses_key(self, key, method, ct, raw, rec, what):
        if method == "xor":
            if ct != refcrypto.xor(raw, key):
                rec.fail("C07/verbatim", "C07/wrong-key-in-use/xor/%s" % what,
                         "XOR ciphertext does not equal plaintext XOR the key file's 32 bytes")
            if len(raw) >= 32:
                rec.probe("xor-full-key-recovered")
        else:
            try:
                pt = refcrypto.aes_cbc_decrypt(key, ct[:16], ct[16:])
            except Exception:  # noqa: BLE001
                pt = None
            if pt != raw:
                rec.fail("C07/verbatim", "C07/wrong-key-in-use/aes/%s" % what,
                         "reference AES-256-CBC with the key file's bytes does not decrypt the value")

    def _decrypt(self, st, o, op, rec):
        key, method, sv, raw = st.vault[op["item"] % len(st.vault)]
        try:
            out = o.kf.decrypt(sv)
            err = None
        except Exception as exc:  # noqa: BLE001
            out, err = None, exc
        rec.log("decrypt", o.depth, method, type(err).__name__ if err else "ok")
        rec.relevant += 1
        rec.check()
        if o.depth == 0:
            rec.probe("decrypt-closed")
            if err is None:
                rec.fail("C07/context", "C07/decrypt-outside-context", "decrypt succeeded outside a key context")
            return
        if key == o.key:
            rec.probe("decrypt-same-key" + (":other-object" if True else ""))
            if err is not None or out != raw:
                rec.fail("C07/verbatim", "C07/decrypt-same-key-fails/%s" % method,
                         "decrypt with the same key file content gave %r / %r" % (out, err))
        else:
            # what another key yields is C08's business (and for XOR a short plaintext survives any key that
            # shares a prefix with the right one); nothing is claimed here
            rec.probe("decrypt-other-key")

    def finish(self, st, rec):
        # every key created in-run must still be on disk unless the external actor replaced it:
        # nothing to assert beyond the per-step checks; close what is open so nothing leaks.
        for o in st.objs:
            while o.depth > 0:
                key = o.key
                o.kf.__exit__(None, None, None)
                o.depth -= 1
                if o.depth == 0 and _scan_for(o.kf, key):
                    rec.fail("C07/never-retained", "C07/key-retained-after-exit",
                             "key material still reachable from the KeyFile object after the outermost exit")

    def shrink_header(self, header, ops):
        used = {op.get("path") for op in ops if op.get("path")}
        if len(header["paths"]) > 1:
            keep = [p for p in header["paths"] if p in used] or header["paths"][:1]
            if keep != header["paths"]:
                h = dict(header, paths=keep, init={p: s for p, s in header["init"].items() if p in keep})
                yield h, ops


SCENARIO = KeyFileScenario()
