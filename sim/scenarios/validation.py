"""C11 -- a load that returns means required fields are set and every validator passed.

Histories over schemas with required fields, schema-level and field-level validators (harness
closures that record what they observed), feature flags at several depths and lists of
sub-configurations; load_tree / loads / validate() / validate(collect_errors=True) / insertion into
configuration lists, judged against an audit of the resulting state and against the recorded
validator invocation log of exactly that call.  Fault: a validator raises an arbitrary exception at
its n-th invocation.
"""
from cincoconfig.core import Config, ValidationError

from .. import model, ops, schema, snapshot, values
from ..codec import canon, dec, enc
from ..engine import stream
from .state import St, StateScenario

STRINGY = ("string", "loglevel", "appmode", "ipv4addr", "ipv4net", "hostname", "filename", "url")


class ValidationScenario(StateScenario):
    name = "validation"
    max_ops = 26

    def __init__(self):
        super().__init__("C11")

    def gen_cfg(self, rng):
        return schema.GenCfg(rng, p_required=rng.choice([0.2, 0.4, 0.6]), p_default=rng.choice([0.2, 0.5]), p_validator=rng.choice([0.1, 0.3]),
                             schema_validators=rng.choice([0.3, 0.6]), featureflags=rng.choice([0.0, 0.3, 0.6]), depth=rng.choice([1, 2, 2, 3]),
                             p_list_schema=rng.choice([0.15, 0.3]), p_configtype=rng.choice([0.0, 0.2]), filename_fs=False,
                             kinds=[k for k in schema.LEAF_KINDS if k not in ("filename",) and rng.random() < 0.55] or ["int", "string"],
                             virtual=False, p_dynamic=rng.choice([0.0, 0.2, 0.4]), p_empty_section=rng.choice([0.0, 0.3, 0.5]))

    def weights(self, rng):
        return {"set": 3, "load_tree": 5, "loads": 3, "validate": 4, "insert_item": 3, "assign_sub": 1.5, "reset": 0.7, "flag": 1.5,
                "late_required": 0.35}

    def start(self, header, world, rec):
        import copy
        header = dict(header, sd=copy.deepcopy(header["sd"]))      # the schema may grow during the run: the case keeps the original
        return super().start(header, world, rec)

    def gen_late_required(self, st, rng, cfg, tgts, cfgpaths, owners):
        """The application declares one more required field on the root schema while a configuration already exists
        (plug-ins do this): from then on that configuration lacks a required value until one is assigned."""
        n = sum(1 for f in st.sd["root"]["fields"] if f["key"].startswith("late"))
        if n >= 2:
            return None
        return {"op": "late_required", "key": "late%d" % n, "kind": rng.choice(["string", "int"])}

    def do_late_required(self, st, cfg, c, op, rec):
        if any(f["key"] == op["key"] for f in st.sd["root"]["fields"]):
            rec.log("late_required", "skip")
            return
        node = {"kind": op["kind"], "key": op["key"], "o": {"required": True}}
        st.sd["root"]["fields"].append(node)
        st.B.root[op["key"]] = schema.make_field(st.B, st.sd, node, op["key"])
        rec.log("late_required", op["key"], op["kind"])
        rec.probe("required-field-declared-after-construction")

    def header(self, seed, avoid):
        h = super().header(seed, avoid)
        h["ncfg"] = 1
        h["p_invalid"] = 0.1
        h["p_fault"] = stream(seed, "c11").choice([0.0, 0.1, 0.25])
        return h

    # ------------------------------------------------------------------ model: audit of a state
    def enabled(self, st, cfgobj, snode):
        """True / False / None (a flag is unset: unspecified)."""
        res = True
        for f in snode["fields"]:
            if f["kind"] == "featureflag":
                v = getattr(cfgobj, f["key"])
                if v is None:
                    return None
                if v is not True:
                    res = False
        return res

    def audit(self, st, cfgobj, snode, path, out, validators):
        """Collect unmet requirements and failing validator predicates of every *enabled* configuration
        below (and including) cfgobj; `validators` collects (kind, tag, observed) that must have run.
        -> False when something is unspecified."""
        en = self.enabled(st, cfgobj, snode)
        if en is None:
            return False
        if not en:
            return True
        ok = True
        for f in snode["fields"]:
            k = f["kind"]
            p = (path + "." if path else "") + f["key"]
            if k in ("virtual", "method", "include"):
                continue
            try:
                v = getattr(cfgobj, f["key"])
            except AttributeError:
                return False      # a declared field that cannot even be read (a changed tree may do that): nothing to audit
            except KeyError:
                v = None          # declared after this configuration was built: there is no value
            if schema.is_cfg_node(f):
                if isinstance(v, Config):
                    ok = self.audit(st, v, schema.sub_schema_node(st.sd, f), p, out, validators) and ok
                continue
            if k == "list" and f.get("item") and schema.is_cfg_node(f["item"]) and isinstance(v, list):
                # whether validate() descends into configurations held in a list is not stated: when one of them has an
                # unmet requirement the verdict of the whole call is left open
                inode = schema.sub_schema_node(st.sd, f["item"])
                for i, item in enumerate(list.__iter__(v)):
                    sub = []
                    if isinstance(item, Config) and (not self.audit(st, item, inode, "%s[%d]" % (p, i), sub, []) or sub):
                        ok = False
            o = f.get("o", {})
            if o.get("required"):
                if v is None:
                    out.append((p, "required field is unset"))
                elif (k in STRINGY and v == "") or (k in ("list", "dict") and hasattr(v, "__len__") and len(v) == 0):
                    out.append((p, "required %s is empty" % k))
            if f.get("validator") and v is not None:
                validators.append(("field", self.tag(st, p), canon(v) if not isinstance(v, (list, dict)) else ("container", len(v))))
                if f["validator"] in ("neg", "negk") and model._neg_predicate(v):
                    out.append((p, "field validator rejects the value"))
        for i, vid in enumerate(snode.get("validators", ())):
            validators.append(("schema", (self.tag(st, path) or "<root>") + ("@%d" % i if i else ""), snapshot.snap(cfgobj, None, False)))
            if vid == "pred":
                for key, value in cfgobj:
                    if isinstance(value, int) and not isinstance(value, bool) and value == 13:
                        out.append((path or "<root>", "schema validator rejects 13"))
                        break
        return ok

    def tag(self, st, path):
        """Harness tag of the schema object behind a live path: list indices are dropped, and paths that go
        through a config type / shared item schema are rebased on that schema's tag."""
        import re
        parts = re.sub(r"\[\d+\]", "", path).split(".") if path else []
        node = st.sd["root"]
        tag_prefix = ""
        out = []
        for n_, part in enumerate(parts):
            f = next((x for x in node["fields"] if x["key"] == part), None)
            if f is None:
                return None
            out.append(part)
            if n_ == len(parts) - 1 and not (path.endswith("]") or schema.is_cfg_node(f)):
                break      # the field itself (e.g. a list field with its own validator), not what it contains
            if f["kind"] == "configtype":
                node = st.sd["types"][f["type"]]["schema"]
                tag_prefix, out = f["type"] + "#", []
            elif f["kind"] == "schema":
                node = schema.sub_schema_node(st.sd, f)
            elif f["kind"] == "list" and f.get("item") and schema.is_cfg_node(f["item"]):
                it = f["item"]
                node = schema.sub_schema_node(st.sd, it)
                tag_prefix, out = (it["type"] if it["kind"] == "configtype" else it["ref"]) + "#", []
        return tag_prefix + ".".join(out)

    # ------------------------------------------------------------------ generation
    def gen_validate(self, st, rng, cfg, tgts, cfgpaths, owners):
        paths = [""] + [p for p, c in cfgpaths]
        return {"op": "validate", "path": rng.choice(paths) if rng.random() < 0.4 else "", "collect": rng.random() < 0.5}

    def gen_flag(self, st, rng, cfg, tgts, cfgpaths, owners):
        flags = [t for t in tgts if t.node["kind"] == "featureflag"]
        if not flags:
            return None
        t = rng.choice(flags)
        return {"op": "set", "via": "attr", "path": t.path, "v": rng.choice([True, False, False, "off", "on"])}

    def gen_insert_item(self, st, rng, cfg, tgts, cfgpaths, owners):
        ls = [t for t in tgts if t.node["kind"] == "list" and t.node.get("item") and schema.is_cfg_node(t.node["item"])]
        if not ls:
            return None
        t = rng.choice(ls)
        if type(t.value).__name__ != "ListProxy":
            return {"op": "set", "via": "attr", "path": t.path, "v": []}
        inode = schema.sub_schema_node(st.sd, t.node["item"])
        tree = ops.gen_tree(rng, st.sd, inode, st.ctx, p_key=rng.choice([0.0, 0.4, 0.9]))
        n = len(t.value)
        return {"op": "insert_item", "path": t.path, "how": rng.choice(["append", "insert", "setitem"]) if n else "append",
                "i": rng.randrange(n) if n else 0, "tree": enc(tree), "as_config": rng.random() < 0.4}

    def gen_load_tree(self, st, rng, cfg, tgts, cfgpaths, owners):
        op = super().gen_load_tree(st, rng, cfg, tgts, cfgpaths, owners)
        if op and rng.random() < 0.15:
            op["tree"] = {}
        return op

    # ------------------------------------------------------------------ execution
    def apply(self, st, op, rec):
        k = op["op"]
        if k in ("load_tree", "loads", "validate", "insert_item", "assign_sub") and st.cfgs:
            cfg = st.cfgs[0]
            B = st.B
            B.fault = next((f for f in op.get("faults", ()) if f.get("seam") == "callback"), None)
            B.vcount = 0
            fired0 = B.fault_fired
            i0 = len(B.vlog)
            try:
                getattr(self, "c11_" + k)(st, cfg, op, rec, i0, fired0)
            finally:
                B.fault = None
            if B.fault_fired > fired0:
                st.world.fired.append((st.world.step, {"kind": "callback-err", "seam": "callback", "errno": op["faults"][0].get("exc")}))
            return
        super().apply(st, op, rec)

    def judge_return(self, st, rec, root_obj, snode, path, i0, fired0, route, err):
        """The call on the (sub)configuration `root_obj` returned (err None) or raised."""
        B = st.B
        window = B.vlog[i0:]
        faulted = B.fault_fired > fired0
        rec.check()
        rec.relevant += 1
        if faulted:
            rec.probe("validator-fault-inside-" + route)
            if err is None:
                rec.fail("C11/validators", "C11/raising-validator-ignored/%s" % route,
                         "a validator raised %s inside %s, yet the call returned normally" % (B.fault.get("exc") if B.fault else "?", route))
            if not isinstance(err, ValidationError):
                rec.fail("C11/validators", "C11/validator-exception-not-wrapped/%s/%s" % (route, type(err).__name__),
                         "a validator's exception surfaced from %s as %r, not as a validation error" % (route, err))
            return
        if err is not None:
            rec.probe(route + "-raised")
            if route.startswith("validate") and not isinstance(err, ValidationError):
                rec.fail("C11/validators", "C11/validate-raises-other-exception/%s" % type(err).__name__, "validate() raised %r" % (err,))
            return
        problems, vals = [], []
        specified = self.audit(st, root_obj, snode, path, problems, vals)
        if not specified:
            rec.probe("unspecified:unset-feature-flag")
            return
        rec.probe(route + "-returned")
        if problems:
            p, why = problems[0]
            rec.fail("C11/required" if "required" in why else "C11/validators",
                     "C11/returned-with-%s/%s" % ("unmet-requirement" if "required" in why else "failing-validator", route),
                     "%s returned normally although %s: %s" % (route, p, why))
        # every validator registered on an enabled node must have run against the data that is there now
        for kind, tag, observed in vals:
            if tag is None:
                continue
            hit = [e for e in window if e[0] == kind and e[1] == tag]
            if not hit:
                rec.fail("C11/validators", "C11/validator-not-run/%s/%s" % (route, kind),
                         "%s returned but the %s validator registered on %s was not invoked during the call" % (route, kind, tag))
            if not any(e[2] == observed for e in hit):
                rec.fail("C11/validators", "C11/validator-ran-on-other-data/%s/%s" % (route, kind),
                         "%s returned; the %s validator on %s ran, but never on the data the configuration holds now" % (route, kind, tag))
            rec.probe("validator-ran-on-final-data:" + kind)

    def c11_load_tree(self, st, cfg, op, rec, i0, fired0):
        path = op["path"]
        snode = self.schema_node_at(st, cfg, path)
        try:
            target = ops.resolve(cfg, path)
        except Exception:  # noqa: BLE001
            target = None
        if snode is None or not isinstance(target, Config):
            rec.log("load_tree", "skip")
            return
        tree = dec(op["tree"])
        _, err = self._call(lambda: target.load_tree(tree))
        rec.log("load_tree", path, canon(tree), type(err).__name__ if err else "ok")
        rec.kind("ok" if err is None else "rej")
        self.judge_return(st, rec, target, snode, path, i0, fired0, "load-tree" + ("-empty" if not tree else ""), err)
        if not tree and err is not None and not (st.B.fault_fired > fired0):
            # an empty map changes nothing, so the call amounts to validate(): it may raise only if the audit finds
            # an unmet requirement or a failing validator on an *enabled* configuration
            problems, vals = [], []
            if self.audit(st, target, snode, path, problems, vals) and not problems:
                rec.check()
                rec.fail("C11/exempt", "C11/empty-load-raises-on-valid-state",
                         "load_tree({}) raised %s although every enabled configuration is complete and valid" % (err,))

    def c11_loads(self, st, cfg, op, rec, i0, fired0):
        tree = dec(op["tree"])
        fmt, opts = op["fmt"], op.get("opts", {})
        if not ops.in_format_domain(fmt, tree):
            rec.log("loads", "out-of-domain")
            return
        doc = ops.write_doc(fmt, tree, opts)
        if op.get("via_file"):
            st.world.poke("/data/c11.doc", doc)
            _, err = self._call(lambda: cfg.load("/data/c11.doc", fmt)) if not opts else self._call(lambda: cfg.loads(doc, fmt, **opts))
        else:
            _, err = self._call(lambda: cfg.loads(doc, fmt, **opts))
        rec.log("loads", fmt, canon(tree), type(err).__name__ if err else "ok")
        rec.kind(fmt + (":ok" if err is None else ":rej"))
        self.judge_return(st, rec, cfg, st.sd["root"], "", i0, fired0, "loads-" + fmt, err)

    def c11_assign_sub(self, st, cfg, op, rec, i0, fired0):
        path = op["path"]
        node = self.node_for(st, cfg, path)
        opath, key = ops.split_last(path)
        try:
            owner = ops.resolve(cfg, opath)
        except Exception:  # noqa: BLE001
            owner = None
        if node is None or not schema.is_cfg_node(node) or not isinstance(owner, Config) or op.get("as_config"):
            rec.log("assign_sub", "skip")
            return
        tree = dec(op["tree"])
        _, err = self._call(lambda: setattr(owner, key, tree))
        rec.log("assign_sub", path, canon(tree), type(err).__name__ if err else "ok")
        rec.kind("ok" if err is None else "rej")
        new = getattr(owner, key)
        if isinstance(new, Config):
            self.judge_return(st, rec, new, schema.sub_schema_node(st.sd, node), path, i0, fired0, "assign-map", err)

    def c11_validate(self, st, cfg, op, rec, i0, fired0):
        path = op.get("path", "")
        snode = self.schema_node_at(st, cfg, path)
        try:
            target = ops.resolve(cfg, path)
        except Exception:  # noqa: BLE001
            target = None
        if snode is None or not isinstance(target, Config):
            rec.log("validate", "skip")
            return
        B = st.B
        _, err = self._call(lambda: target.validate())
        faulted = B.fault_fired > fired0
        rec.log("validate", path, type(err).__name__ if err else "ok")
        rec.kind("raise" if err else "ok")
        self.judge_return(st, rec, target, snode, path, i0, fired0, "validate", err)
        if faulted:
            return
        # raising mode must raise exactly when the audit finds something (nothing is mutated by validate())
        problems, vals = [], []
        if not self.audit(st, target, snode, path, problems, vals):
            return
        rec.check()
        if problems and err is None:
            pass   # already reported by judge_return
        if not problems and err is not None:
            rec.fail("C11/exempt", "C11/validate-raises-on-valid-state",
                     "validate() raised %s although every enabled configuration has its required fields and passing validators "
                     "(disabled sub-configurations are exempt)" % (err,))
        # collecting mode agrees with raising mode
        B.fault = None
        errs, e2 = self._call(lambda: target.validate(collect_errors=True))
        rec.check()
        if e2 is not None:
            rec.fail("C11/collect", "C11/collecting-mode-raises/%s" % type(e2).__name__, "validate(collect_errors=True) raised %r" % (e2,))
        if bool(errs) != (err is not None):
            rec.fail("C11/collect", "C11/collecting-mode-disagrees/%s" % ("empty-list-but-raises" if err else "errors-but-no-raise"),
                     "validate() %s while validate(collect_errors=True) returned %d error(s)" % ("raised" if err else "returned", len(errs or [])))
        if errs and not all(isinstance(x, ValidationError) for x in errs):
            rec.fail("C11/collect", "C11/collected-non-validation-error", "collected %r" % ([type(x).__name__ for x in errs],))
        rec.probe("collect-agrees:" + ("invalid" if err else "valid"))
        if not problems:
            rec.probe("valid-state-with-disabled-violations" if self.has_disabled_problem(st, target, snode) else "valid-state")

    def has_disabled_problem(self, st, cfgobj, snode):
        """Is there an unmet requirement inside a disabled sub-configuration (so that exemption mattered)?"""
        for f in snode["fields"]:
            if schema.is_cfg_node(f):
                v = getattr(cfgobj, f["key"])
                if isinstance(v, Config):
                    sn = schema.sub_schema_node(st.sd, f)
                    if self.enabled(st, v, sn) is False:
                        for g in sn["fields"]:
                            if g.get("o", {}).get("required") and not schema.is_cfg_node(g) and getattr(v, g["key"], 1) is None:
                                return True
                    elif self.has_disabled_problem(st, v, sn):
                        return True
        return False

    def c11_insert_item(self, st, cfg, op, rec, i0, fired0):
        path = op["path"]
        node = self.node_for(st, cfg, path)
        try:
            lst = ops.resolve(cfg, path)
        except Exception:  # noqa: BLE001
            lst = None
        if node is None or type(lst).__name__ != "ListProxy" or not (node.get("item") and schema.is_cfg_node(node["item"])):
            rec.log("insert_item", "skip")
            return
        item = node["item"]
        inode = schema.sub_schema_node(st.sd, item)
        tree = dec(op["tree"])
        value = tree
        if op.get("as_config"):
            try:
                fresh = st.B.types[item["type"]]() if item["kind"] == "configtype" else st.B.shared[item["ref"]]()
                fresh.load_tree(tree, validate=False)
            except Exception:  # noqa: BLE001
                rec.log("insert_item", "prep-failed")
                return
            value = fresh
        st.B.vcount = 0
        i0 = len(st.B.vlog)
        n = len(lst)
        how = op["how"]
        i = op.get("i", 0)
        if how == "append" or not n:
            _, err = self._call(lambda: lst.append(value))
            idx = n
        elif how == "insert":
            _, err = self._call(lambda: lst.insert(i % (n + 1), value))
            idx = i % (n + 1)
        else:
            _, err = self._call(lambda: lst.__setitem__(i % n, value))
            idx = i % n
        rec.log("insert_item", path, how, type(err).__name__ if err else "ok")
        rec.kind(how + (":cfg" if op.get("as_config") else ":map") + (":ok" if err is None else ":rej"))
        if err is None:
            new = list.__getitem__(lst, idx)
            if isinstance(new, Config):
                self.judge_return(st, rec, new, inode, "%s[%d]" % (path, idx), i0, fired0, "list-" + how + ("-config" if op.get("as_config") else "-map"), None)
        else:
            self.judge_return(st, rec, None, inode, path, i0, fired0, "list-" + how, err)
            if op.get("as_config") and not (st.B.fault_fired > fired0):
                # the same object is offered again: a rejected item stays rejected while nothing about it changed
                i1 = len(st.B.vlog)
                _, err2 = self._call(lambda: lst.append(value))
                rec.log("insert_item-retry", type(err2).__name__ if err2 else "ok")
                rec.probe("retry-rejected-config-item")
                if err2 is None:
                    new = list.__getitem__(lst, len(lst) - 1)
                    self.judge_return(st, rec, new, inode, "%s[%d]" % (path, len(lst) - 1), i1, st.B.fault_fired, "list-append-config-retry", None)


SCENARIO = ValidationScenario()
