"""C14 -- environment variables beat files, assignment beats both, names are predictable.

Sessions with a process environment fixed by the scheduler (each bound variable unset / empty / valid /
invalid); construction, loads (trees and documents), explicit assignments, resets and restarts with
another environment.  The variable name of every field is derived from the descriptor alone
(reference naming rule) and every expectation is evaluated against the real configuration after
each step, plus a differential twin built from the same schema with all bindings removed.
"""
import copy

from cincoconfig.core import Config, ValidationError

from .. import model, ops, schema, snapshot, values
from ..codec import canon, dec, enc
from ..engine import stream
from ..model import OK, REJ
from .state import St, StateScenario

KINDS = ["string", "int", "float", "bool", "port", "ipv4addr", "url", "loglevel", "hostname", "bytes", "secure", "ipv4net"]
CONTAINER_KINDS = ["list", "dict", "challenge"]


def env_names(sd):
    """Reference naming rule -> {field path: variable name} (only bound fields)."""
    out = {}

    def rec(node, prefix_path, env_prefix):
        for f in node["fields"]:
            p = prefix_path + f["key"]
            if f["kind"] == "schema":
                e = f.get("env")
                if e is False:
                    sub = False
                elif e is True:
                    sub = ""
                elif isinstance(e, str):
                    sub = e
                elif isinstance(env_prefix, str):
                    sub = (env_prefix + "_" if env_prefix else "") + f["key"].upper()
                else:
                    sub = None
                rec(f, p + ".", sub)
                continue
            if f["kind"] in ("configtype", "virtual", "method"):
                continue
            e = f.get("o", {}).get("env")
            if e is False:
                continue
            if isinstance(e, str) and e:
                out[p] = e
            elif e is True or (e is None and isinstance(env_prefix, str)):
                pre = env_prefix + "_" if isinstance(env_prefix, str) and env_prefix else ""
                out[p] = pre + f["key"].upper()

    root = sd["root"]
    e = root.get("env")
    rec(root, "", "" if e is True else e if isinstance(e, str) else (False if e is False else None))
    return out


def strip_env(sd):
    sd = copy.deepcopy(sd)

    def rec(node):
        node.pop("env", None)
        for f in node["fields"]:
            if f["kind"] == "schema":
                rec(f)
            else:
                f.get("o", {}).pop("env", None)

    rec(sd["root"])
    return sd


def valid_env(sd, rng, ctx, p=0.5, kinds=None):
    """{variable: a valid non-empty value} for about a share p of the bound scalar fields (names shared by two fields are
    left out: a value valid for one need not be valid for the other)."""
    names = env_names(sd)
    env = {}
    for path, name in sorted(names.items()):
        if list(names.values()).count(name) > 1:
            continue
        node = schema.node_at(sd, path)
        if node is None or node["kind"] in ("list", "dict", "challenge", "include", "filename", "featureflag", "virtual", "method", "any", "bytes"):
            continue
        if kinds is not None and node["kind"] not in kinds:
            continue
        if rng.random() < p:
            for _ in range(10):
                v = values.gen_value(rng, node, "valid", ctx)
                if isinstance(v, str) and v and "\x00" not in v and isinstance(model.norm(node, v, ctx), OK):
                    env[name] = v
                    break
    return env


class EnvScenario(StateScenario):
    name = "environment"
    max_ops = 24

    def __init__(self):
        super().__init__("C14")

    def gen_cfg(self, rng):
        return schema.GenCfg(rng, kinds=[k for k in KINDS if rng.random() < 0.6] or ["int", "string"], depth=rng.choice([0, 1, 2, 3]),
                             width=rng.randint(2, 5), p_validator=rng.choice([0.0, 0.3, 0.5]), p_required=0.0, p_configtype=0.0, p_list_schema=0.0,
                             p_dynamic=0.0, filename_fs=False, virtual=False, p_sub=rng.choice([0.3, 0.5]))

    def weights(self, rng):
        return {"set": 4, "load_tree": 4, "loads": 2, "reset": 1, "restart": 2, "cmdline": 1.5}

    def header(self, seed, avoid):
        h = super().header(seed, avoid)
        rng = stream(seed, "c14")
        sd = h["sd"]
        avoid_containers = "env-on-container-fields" in avoid

        counter = [0]

        def decorate(node, top):
            if top:
                node["env"] = rng.choice([None, True, True, "APP", "APP", False, "myapp"])     # a named prefix is used as given
            else:
                node["env"] = rng.choice([None, None, None, "SUB", "X_Y", False, "Svc", "x_y"])
            if node["env"] is None:
                node.pop("env")
            for f in node["fields"]:
                if f["kind"] == "schema":
                    decorate(f, False)
                elif f["kind"] not in ("configtype", "virtual", "method"):
                    counter[0] += 1
                    e = rng.choice([None, None, None, True, "NAMED_%s_%d" % (f["key"].upper(), counter[0]), False,
                                    "named_%s_%d" % (f["key"].lower(), counter[0])])       # an explicit name is used exactly as given
                    if e is not None:
                        f.setdefault("o", {})["env"] = e

        if rng.random() < 0.3:
            k = rng.choice(CONTAINER_KINDS if not avoid_containers else ["challenge"])
            node = {"kind": k, "key": "cont", "o": {}}
            if k == "list":
                node["item"] = {"kind": "string", "o": {}}
            elif k == "dict":
                node["kf"] = {"kind": "string", "o": {}}
            else:
                node["o"] = {"hash_algorithm": "sha256", "default": "dflt!pw"}
            sd["root"]["fields"].append(node)
        decorate(sd["root"], True)
        h["ncfg"] = 1
        h["p_fault"] = 0.0
        h["p_invalid"] = 0.1
        h["p_env_invalid"] = rng.choice([0.0, 0.0, 0.15])
        h["env_seed"] = rng.randrange(1 << 30)
        # the environment of the first session is part of the case (later ones are recorded in their restart operation),
        # so that a recorded case does not depend on the value pools it was drawn from
        from ..world import World
        tmp = St()
        tmp.h, tmp.sd, tmp.names = h, sd, env_names(sd)
        tw = World()
        values.seed_world(tw)
        tmp.ctx = values.Ctx(tw)
        h["env0"] = self.choose_env(tmp, 0)[0]
        return h

    # ------------------------------------------------------------------ sessions
    def choose_env(self, st, k):
        """The environment of session k: one state per bound variable."""
        rng = stream(st.h["env_seed"] + k, "env")
        env = {}
        plan = {}
        for path, name in sorted(st.names.items()):
            node = schema.node_at(st.sd, path)
            r = rng.random()
            if name in env:
                continue
            if r < 0.3:
                plan[name] = "unset"
            elif r < 0.4:
                env[name] = ""
                plan[name] = "empty"
            elif r < 0.4 + st.h["p_env_invalid"]:
                for _ in range(20):
                    v = values.gen_value(rng, node, "invalid", st.ctx)
                    if isinstance(v, str) and v and "\x00" not in v:
                        env[name] = v
                        plan[name] = "invalid"
                        break
            else:
                for _ in range(20):
                    v = values.gen_value(rng, node, "valid", st.ctx)
                    if isinstance(v, str) and v and "\x00" not in v:
                        env[name] = v
                        plan[name] = "valid"
                        break
        return env, plan

    def start(self, header, world, rec):
        st = St()
        st.world = world
        st.h = header
        st.sd = header["sd"]
        values.seed_world(world)
        st.ctx = values.Ctx(world)
        st.names = env_names(st.sd)
        st.twin_sd = strip_env(st.sd)
        st.session = 0
        st.docs = []
        st.cfgs = []
        self.new_session(st, rec)
        return st

    def new_session(self, st, rec, env=None):
        from .. import seams
        seams.reset_process_state()
        w = st.world
        if env is None and st.session == 0 and "env0" in st.h:
            env = st.h["env0"]
        if env is None:
            env = self.choose_env(st, st.session)[0]       # cases recorded before environments were made part of the case
        st.session += 1
        w.env.clear()
        w.env.update(env)
        st.env = dict(env)
        st.B = schema.build(st.sd)
        st.serials = snapshot.Serials()
        st.assigned = set()
        st.either = {}
        st.open = set()
        # reference naming rule vs the names the library derived
        rec.check()
        for path, f in ops_iter_fields(st.sd):
            real = st.B.fields.get(path)
            got = getattr(real, "env", None)
            want = st.names.get(path)
            got_name = got if isinstance(got, str) and got else None
            if got_name != want:
                rec.probe("env-attribute-differs-from-naming-rule")      # judged by behaviour below, not by the attribute
        # expected outcome of construction
        bound = {}
        for path, name in st.names.items():
            val = env.get(name)
            if val:
                bound[path] = (name, val, model.norm(schema.node_at(st.sd, path), val, st.ctx))
        invalid = sorted(p for p, (_, _, r) in bound.items() if r == REJ)
        unspecified = any(r == model.UNSPEC for _, _, r in bound.values())
        cfg, err = self._call(lambda: st.B.root())
        rec.log("build", sorted(env.items()), type(err).__name__ if err else "ok")
        rec.kind("build:" + ("invalid" if invalid else "ok"))
        rec.relevant += 1
        rec.check()
        st.bound = bound
        if invalid:
            rec.probe("construction-with-invalid-variable")
            if err is None:
                node = schema.node_at(st.sd, invalid[0])
                rec.fail("C14/invalid", "C14/invalid-variable-accepted/%s" % node["kind"],
                         "variable %s=%r is not valid for field %s (%s) yet construction succeeded; the field holds %r"
                         % (bound[invalid[0]][0], bound[invalid[0]][1], invalid[0], node["kind"], canon(ops.resolve(cfg, invalid[0]))))
            if not isinstance(err, ValidationError):
                rec.fail("C14/invalid", "C14/invalid-variable-wrong-exception/%s" % type(err).__name__, "construction raised %r" % (err,))
            maybe = [p for p, (_, _, r) in bound.items() if r == model.UNSPEC]    # the model makes no claim on these
            if err.ref_path not in invalid and err.ref_path not in maybe:
                rec.fail("C14/invalid", "C14/invalid-variable-error-names-other-field", "construction failed naming %r; invalid variables bind %r" % (err.ref_path, invalid))
            st.cfgs = []
            return
        if err is not None and unspecified:
            rec.probe("construction-unspecified-variable")
            st.cfgs = []
            return
        if err is not None:
            rec.fail("C14/build", "C14/construction-raises/%s" % type(err).__name__, "construction with environment %r raised %r" % (env, err))
        st.cfgs = [cfg]
        # twin without any binding, same session: unset / empty / opted-out fields behave like it
        st.Bt = schema.build(st.twin_sd)
        st.twin = st.Bt.root()
        self.check_env(st, cfg, rec, "construct")
        for path, f in ops_iter_fields(st.sd):
            if path in bound:
                continue
            a, b = ops.resolve(cfg, path), ops.resolve(st.twin, path)
            rec.check()
            if not (canon(a) == canon(b) or (type(a).__name__ == "DigestValue" and type(b).__name__ == "DigestValue")):
                rec.fail("C14/unbound", "C14/unbound-field-differs-from-no-binding/%s" % ("empty" if env.get(st.names.get(path, "")) == "" else "unset-or-opted-out"),
                         "field %s (variable %r: %r) holds %r; without any binding it holds %r" % (path, st.names.get(path), env.get(st.names.get(path, "-")), canon(a), canon(b)))

    def check_env(self, st, cfg, rec, route):
        """Every field bound to a non-empty valid variable, and not explicitly assigned since, holds the
        validated variable."""
        for path, (name, val, r) in st.bound.items():
            if path in st.assigned or path in st.open or not isinstance(r, OK):
                continue
            rec.check()
            try:
                got = ops.resolve(cfg, path)
            except Exception as exc:  # noqa: BLE001
                got = exc
            if path in st.either and canon_at(cfg, path) == st.either[path]:
                rec.probe("assignment-survived-load-of-enclosing-map")
                continue
            if not ops.matches(r.v, got):
                node = schema.node_at(st.sd, path)
                rec.fail("C14/precedence", "C14/variable-not-in-effect/%s/%s" % (route, node["kind"]),
                         "after %s field %s holds %r; its variable %s=%r validates to %r" % (route, path, canon(got) if not isinstance(got, Exception) else got, name, val, r.v))
            rec.probe("variable-in-effect:" + route.split("-")[0])

    # ------------------------------------------------------------------ ops
    def gen_op(self, st, rng):
        if not st.cfgs:
            return {"op": "restart", "env": self.choose_env(st, st.session)[0]}
        op = super().gen_op(st, rng)
        op["cfg"] = 0
        return op

    def gen_restart(self, st, rng, cfg, tgts, cfgpaths, owners):
        return {"op": "restart", "env": self.choose_env(st, st.session)[0]}

    def gen_set(self, st, rng, cfg, tgts, cfgpaths, owners):
        # bias assignments towards bound fields
        bound = [t for t in tgts if t.path in st.bound and not schema.is_cfg_node(t.node)]
        if bound and rng.random() < 0.6:
            t = rng.choice(bound)
            v = values.gen_value(rng, t.node, "valid" if rng.random() < 0.85 else "invalid", st.ctx)
            return {"op": "set", "via": rng.choice(["attr", "item"]), "path": t.path, "v": enc(v)}
        return super().gen_set(st, rng, cfg, tgts, cfgpaths, owners)

    def gen_load_tree(self, st, rng, cfg, tgts, cfgpaths, owners):
        op = super().gen_load_tree(st, rng, cfg, tgts, cfgpaths, owners)
        return op

    def gen_cmdline(self, st, rng, cfg, tgts, cfgpaths, owners):
        """A command-line override of one bound scalar field: an explicit assignment like any other."""
        cands = [t for t in tgts if t.path in st.bound and t.node["kind"] in ("string", "int", "float", "port", "ipv4addr", "url", "loglevel", "hostname", "ipv4net")]
        if not cands:
            return None
        t = rng.choice(cands)
        for _ in range(10):
            v = values.gen_value(rng, t.node, "valid", st.ctx)
            sv = v if isinstance(v, str) else repr(v) if isinstance(v, (int, float)) and not isinstance(v, bool) else None
            if sv and not sv.startswith("-") and isinstance(model.norm(t.node, sv, st.ctx), OK):
                return {"op": "cmdline", "path": t.path, "sv": sv}
        return None

    def apply(self, st, op, rec):
        if op["op"] == "restart":
            self.new_session(st, rec, op.get("env"))
            rec.probe("restart")
            return
        if not st.cfgs:
            rec.log("no-config")
            return
        cfg = st.cfgs[0]
        k = op["op"]
        if k == "set":
            path = op["path"]
            opath, key = ops.split_last(path)
            owner = safe_resolve(cfg, opath)
            node = self.node_for(st, cfg, path)
            if node is None or not isinstance(owner, Config) or schema.is_cfg_node(node):
                rec.log("set", "skip")
                return
            v = dec(op["v"])
            if op.get("via") == "item":
                _, err = self._call(lambda: cfg.__setitem__(path, v))
            else:
                _, err = self._call(lambda: setattr(owner, key, v))
            rec.log("set", path, canon(v), type(err).__name__ if err else "ok")
            rec.kind("ok" if err is None else "rej")
            if err is None:
                st.assigned.add(path)
                st.either.pop(path, None)
                st.open.discard(path)
                if path in st.bound:
                    rec.probe("assignment-over-variable")
                    rec.check()
                    r = model.norm(node, v, st.ctx)
                    if isinstance(r, OK) and not ops.matches(r.v, safe_resolve(cfg, path)):
                        rec.fail("C14/precedence", "C14/assignment-does-not-override-variable/%s" % node["kind"],
                                 "explicit assignment of %r to %s (bound to %s) left %r" % (canon(v), path, st.bound[path][0], canon(safe_resolve(cfg, path))))
        elif k in ("load_tree", "loads"):
            tree = dec(op["tree"])
            base = op.get("path", "") if k == "load_tree" else ""
            target = safe_resolve(cfg, base)
            if not isinstance(target, Config):
                rec.log(k, "skip")
                return
            keep = {p: canon_at(cfg, p) for p in st.assigned}
            if k == "load_tree":
                _, err = self._call(lambda: target.load_tree(tree))
            else:
                fmt, opts = op["fmt"], op.get("opts", {})
                if not ops.in_format_domain(fmt, tree):
                    rec.log(k, "out-of-domain")
                    return
                doc = ops.write_doc(fmt, tree, opts)
                _, err = self._call(lambda: cfg.loads(doc, fmt, **opts))
            rec.log(k, base, canon(tree), type(err).__name__ if err else "ok")
            rec.kind("ok" if err is None else "rej")
            touched = set(tree_paths(st.sd, base, tree))
            if err is None:
                # a (sub)configuration replaced by a loaded map is rebuilt from its defaults (= environment again)
                # (whether the map replaces or updates the sub-configuration is not stated: an earlier explicit assignment
                # below it may also survive)
                for repl in replaced_paths(st.sd, base, tree):
                    for p in [p for p in st.assigned if p.startswith(repl + ".")]:
                        st.assigned.discard(p)
                        if p in keep:
                            st.either[p] = keep[p]
                # loaded, unbound fields are assigned by the load: a field whose variable is unset or empty (or that
                # opted out) behaves as if no binding existed, i.e. the document's value is applied
                snode0 = st.sd["root"] if not base else schema.sub_schema_node(st.sd, schema.node_at(st.sd, base))
                slots = {p_: (n_, c_[k_]) for p_, n_, c_, k_ in ops.tree_leaf_slots(st.sd, snode0, tree, base + "." if base else "")}
                for p in touched:
                    if p not in st.bound:
                        st.assigned.add(p)
                        n_, raw = slots.get(p, (None, None))
                        if n_ is None or schema.is_cfg_node(n_) or not ops.loadable(n_):
                            continue
                        exp = ops.expect_loaded(n_, raw, st.ctx)
                        if isinstance(exp, OK):
                            rec.check()
                            got = safe_resolve(cfg, p)
                            if not ops.matches(exp.v, got):
                                name = st.names.get(p)
                                rec.fail("C14/unbound", "C14/load-ignored-for-field-without-effective-variable/%s"
                                         % ("empty" if name and st.env.get(name) == "" else "unset" if name else "no-binding"),
                                         "field %s (variable %r=%r) was in the loaded document with %r but holds %r"
                                         % (p, name, st.env.get(name) if name else None, raw, canon(got) if not isinstance(got, Exception) else got))
                            rec.probe("load-applied:" + ("empty-variable" if name_of(st, p) == "" else "no-variable"))
                # an explicitly assigned, bound field that the document also names: the document never overrides
                # a field whose variable is set, so the assignment stays
                for p, was in keep.items():
                    if p in st.assigned and p in st.bound and isinstance(st.bound[p][2], OK) and p in touched:
                        rec.check()
                        if canon_at(cfg, p) != was:
                            rec.fail("C14/precedence", "C14/load-overrides-field-with-variable-set",
                                     "field %s (variable %s set) was changed by a later load from %r to %r" % (p, st.bound[p][0], was, canon_at(cfg, p)))
            rec.probe("load-with-bound-key" if any(p in st.bound for p in touched) else "load")
        elif k == "cmdline":
            from cincoconfig.support import cmdline_args_override, generate_argparse_parser
            path, sv = op["path"], op["sv"]
            node = schema.node_at(st.sd, path)
            opt = "--" + path.replace(".", "-").replace("_", "-").lower()

            def frame():
                import contextlib
                import io
                parser = generate_argparse_parser(st.B.root, prog="sim", add_help=False)
                with contextlib.redirect_stderr(io.StringIO()):
                    ns = parser.parse_args([opt, sv])
                cmdline_args_override(cfg, ns)
            _, err = self._call(frame)
            rec.log("cmdline", path, sv, type(err).__name__ if err else "ok")
            if err is not None or node is None:
                rec.probe("cmdline-not-applied")          # colliding option names and the like: no claim
                return
            st.assigned.add(path)
            st.either.pop(path, None)
            st.open.discard(path)
            rec.check()
            r = model.norm(node, sv, st.ctx)
            if isinstance(r, OK) and not ops.matches(r.v, safe_resolve(cfg, path)):
                rec.fail("C14/precedence", "C14/assignment-does-not-override-variable/cmdline/%s" % node["kind"],
                         "the command-line override %s %r for %s (bound to %s) left %r" % (opt, sv, path, st.bound[path][0], canon(safe_resolve(cfg, path))))
            rec.probe("command-line-over-variable")
        elif k == "reset":
            path = op["path"]
            opath, key = ops.split_last(path)
            owner = safe_resolve(cfg, opath)
            if not isinstance(owner, Config):
                rec.log("reset", "skip")
                return
            from cincoconfig.support import reset_value
            _, err = self._call(lambda: reset_value(owner, key))
            rec.log("reset", path, type(err).__name__ if err else "ok")
            if err is None:
                # what a reset restores for a bound field (variable or declared default) is not part of C14: no claim on
                # the reset paths until they are assigned again
                gone = {p for p in st.assigned if p == path or p.startswith(path + ".")}
                st.assigned -= gone
                st.open |= {p for p in st.bound if p == path or p.startswith(path + ".")}
        else:
            rec.log("noop")
            return
        rec.relevant += 1
        self.check_env(st, cfg, rec, k)


def name_of(st, p):
    name = st.names.get(p)
    return st.env.get(name) if name else None


def safe_resolve(cfg, path):
    try:
        return ops.resolve(cfg, path)
    except Exception as exc:  # noqa: BLE001
        return exc


def canon_at(cfg, path):
    v = safe_resolve(cfg, path)
    return canon(v) if not isinstance(v, (Exception, Config)) else None


def ops_iter_fields(sd):
    for path, f in schema.iter_leaves(sd):
        if f["kind"] not in ("virtual", "method"):
            yield path, f


def tree_paths(sd, base, tree):
    node = sd["root"] if not base else None
    if base:
        f = schema.node_at(sd, base)
        node = schema.sub_schema_node(sd, f) if f and schema.is_cfg_node(f) else None
    if node is None or not isinstance(tree, dict):
        return []
    return [p for p, _, _, _ in ops.tree_leaf_slots(sd, node, tree, base + "." if base else "")]


def replaced_paths(sd, base, tree):
    """Paths of sub-configurations that a load of `tree` replaces by new objects."""
    out = []
    node = sd["root"] if not base else None
    if base:
        f = schema.node_at(sd, base)
        node = schema.sub_schema_node(sd, f) if f and schema.is_cfg_node(f) else None
    if node is None or not isinstance(tree, dict):
        return out
    for p, n, cont, key in ops.tree_leaf_slots(sd, node, tree, base + "." if base else ""):
        if schema.is_cfg_node(n) and isinstance(cont[key], dict):
            out.append(p)
    return out


SCENARIO = EnvScenario()
