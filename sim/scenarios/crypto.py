"""C08 (ciphers) and C09 (challenge fields): the seam-dependent clauses of both.

C08: every AES value starts with exactly the 16 bytes of the entropy draw journaled for that call and
continues with reference AES-256-CBC/PKCS7 of the plaintext; XOR equals plaintext xor key; decrypt in a
later session, by another provider object, returns the plaintext; a different key never does; the
malformed stored values the statement names are rejected.

C09: every assignment draws exactly one salt of the digest's size from the entropy seam and stores
hash(salt + secret); challenges succeed for the secret and fail for its neighbours; plaintext never
reaches repr/str or the disk; salt and digest survive save/restart/load; hand-written plaintext is
hashed on load.
"""
import base64
import hashlib

import cincoconfig as cc
from cincoconfig.encryption import AesProvider, KeyFile, SecureValue, XorProvider
from cincoconfig.fields import DigestValue

from .. import ops, refcrypto, seams
from ..engine import Scenario, stream
from ..world import SeamGap

PLAIN_LENS = [0, 1, 15, 16, 17, 31, 32, 33, 64, 1000]
KEYPATHS = ["/keys/a.key", "/keys/b.key"]


def _key(tag):
    if tag == "zero":
        return b"\x00" * 32
    if tag == "ff":
        return b"\xff" * 32
    return hashlib.sha256(("cipher-key:%s" % tag).encode()).digest()


def _plaintext(rng):
    n = rng.choice(PLAIN_LENS) if rng.random() < 0.6 else rng.randint(0, 80)
    kind = rng.choice(["ascii", "ascii", "bytes", "utf8"])
    if kind == "ascii":
        return bytes(rng.choice(b"abcXYZ019 !#") for _ in range(n))
    if kind == "utf8":
        return ("é中ß!" * (n // 4 + 1)).encode()[: max(n, 0)].decode("utf-8", "ignore").encode()
    return bytes(rng.randrange(256) for _ in range(n))


class St:
    pass


class CipherScenario(Scenario):
    prop = "C08"
    name = "cipher"
    max_ops = 24

    def header(self, seed, avoid):
        rng = stream(seed, "swarm")
        return {"keys": {KEYPATHS[0]: rng.choice(["absent", "k1", "zero", "ff", "k2"]), KEYPATHS[1]: rng.choice(["k3", "k4", "absent"])},
                "max_ops": rng.randint(6, self.max_ops), "p_tamper": rng.choice([0.1, 0.25, 0.4])}

    def start(self, header, world, rec):
        st = St()
        st.world = world
        st.h = header
        for p, tag in header["keys"].items():
            if tag != "absent":
                world.poke(p, _key(tag))
        st.vault = []    # {key path, key bytes, method, ct, pt, basic (stored dict) or None}
        st.session = 0
        sch = cc.Schema()
        sch.aes = cc.SecureField(method="aes")
        sch.xor = cc.SecureField(method="xor")
        sch.best = cc.SecureField(method="best")
        st.schema = sch
        return st

    def gen_op(self, st, rng):
        r = rng.random()
        if st.vault and r < st.h["p_tamper"]:
            return {"op": "tamper", "item": rng.randrange(len(st.vault)),
                    "how": rng.choice(["short", "short", "unaligned", "unaligned", "method-unknown", "method-missing", "ct-not-str",
                                       "bad-base64", "not-a-map", "method-empty", "ct-missing", "aligned-cut", "aligned-cut", "aligned-ext",
                                       "iv-flip"]),
                    "n": rng.randrange(1, 40), "via": rng.choice(["keyfile", "field", "provider"]), "reuse": rng.random() < 0.5}
        if st.vault and r < st.h["p_tamper"] + 0.3:
            return {"op": "decrypt", "item": rng.randrange(len(st.vault)), "via": rng.choice(["keyfile", "provider", "field"]),
                    "other_key": rng.random() < 0.25, "reuse": rng.random() < 0.5}
        if r > 0.93:
            return {"op": "restart"}
        if r > 0.86:
            bak = getattr(st, "keybak", {})
            if bak and rng.random() < 0.6:
                return {"op": "key_event", "what": "restore", "key": rng.choice(sorted(bak))}
            return {"op": "key_event", "what": rng.choice(["damage", "damage", "rotate"]), "key": rng.choice(KEYPATHS), "n": rng.randrange(0, 32)}
        pt = _plaintext(rng)
        via = rng.choice(["keyfile", "keyfile", "provider", "field"])
        return {"op": "encrypt", "key": rng.choice(KEYPATHS), "method": rng.choice(["aes", "aes", "xor", "best", "best"]), "pt": pt.hex(),
                "via": via, "as_str": rng.random() < 0.5, "warm": rng.choice([0, 0, 1, 2, 3]), "reuse": rng.random() < 0.5}

    def keyfile(self, st, kpath, reuse, rec):
        """A KeyFile object for the path: a new one, or the long-lived one of this session (what happened to it before --
        a failed open, other keys it has seen -- must not matter)."""
        if not reuse:
            return KeyFile(kpath)
        kfs = st.__dict__.setdefault("kfs", {})
        if kpath in kfs:
            rec.probe("keyfile-object-reused")
        return kfs.setdefault(kpath, KeyFile(kpath))

    def fieldcfg(self, st, kpath, reuse, rec):
        """The configuration whose secure fields do the work: a new one, or the long-lived one of this session for that key
        file (a secret that failed to load or save earlier must not leave anything behind in it)."""
        if not reuse:
            return st.schema(key_filename=kpath)
        cfgs = st.__dict__.setdefault("fcfgs", {})
        if kpath in cfgs:
            rec.probe("config-object-reused")
        return cfgs.setdefault(kpath, st.schema(key_filename=kpath))

    def do_key_event(self, st, op, rec):
        """The key file changes between operations: torn, put back, replaced by another valid key."""
        w = st.world
        p, what = op["key"], op["what"]
        bak = st.__dict__.setdefault("keybak", {})
        cur = w.peek(p)
        if what == "restore":
            if p not in bak:
                rec.log("key_event", "skip")
                return
            w.poke(p, bak.pop(p))
        elif cur is None:
            rec.log("key_event", "skip")
            return
        elif what == "damage":
            if len(cur) == 32:
                bak[p] = bytes(cur)
            w.poke(p, bytes(cur)[:op.get("n", 16) % 32])
        else:
            bak.pop(p, None)
            w.poke(p, hashlib.sha256(b"rotated:%d:%d" % (w.seed, w.step)).digest())
        rec.log("key_event", what, p)
        rec.probe("key-file-" + what)

    def provider(self, st, key, method, reuse, rec):
        """A provider object for (key, method): a new one, or the long-lived one of this session ("across provider
        objects": what one object did before must not matter)."""
        if not reuse:
            return AesProvider(key) if method == "aes" else XorProvider(key)
        provs = st.__dict__.setdefault("provs", {})
        k = (bytes(key), method)
        if k not in provs:
            provs[k] = AesProvider(key) if method == "aes" else XorProvider(key)
        else:
            rec.probe("provider-object-reused:" + method)
        return provs[k]

    def apply(self, st, op, rec):
        k = op["op"]
        if k == "restart":
            st.provs = {}
            st.kfs = {}
            st.fcfgs = {}
            st.session += 1
            seams.reset_process_state()
            rec.log("restart")
            rec.probe("restart")
        elif k == "encrypt":
            self.do_encrypt(st, op, rec)
        elif k == "decrypt":
            self.do_decrypt(st, op, rec)
        elif k == "tamper":
            it = st.vault[op["item"] % len(st.vault)] if st.vault else None
            cur = st.world.peek(it["kpath"]) if it else None
            if it is None or cur is None or len(cur) != 32:
                rec.log("tamper", "skip-key-unusable")
                return
            self.do_tamper(st, op, rec)
        elif k == "key_event":
            self.do_key_event(st, op, rec)

    def _call(self, fn):
        try:
            return fn(), None
        except SeamGap:
            raise
        except Exception as exc:  # noqa: BLE001
            return None, exc

    def do_encrypt(self, st, op, rec):
        w = st.world
        pt = bytes.fromhex(op["pt"])
        kpath, method, via = op["key"], op["method"], op["via"]
        text = pt
        if op.get("as_str") or via == "field":
            try:
                text = pt.decode("utf-8")
            except UnicodeDecodeError:
                text = pt if via != "field" else None
        if text is None or (via == "field" and not text):
            rec.log("encrypt", "skip")
            return
        d0 = len(w.draws)
        basic = None
        cur = w.peek(kpath)
        if cur is not None and len(cur) != 32:
            # the key file is torn right now: the operation must fail (C07's claim); it is still carried out, on the
            # long-lived object too, because what such a failure leaves behind is part of later operations' history
            if via == "keyfile":
                kfobj = self.keyfile(st, kpath, op.get("reuse"), rec)

                def attempt():
                    with kfobj as kf:
                        return kf.encrypt(text, method=method)
                _, e0 = self._call(attempt)
                rec.probe("encrypt-with-torn-key-file:" + ("raised" if e0 is not None else "returned"))
            rec.log("encrypt", "key-file-unusable")
            return
        if via == "keyfile":
            warm = op.get("warm", 0)

            kfobj = self.keyfile(st, kpath, op.get("reuse"), rec)

            def run():
                with kfobj as kf:
                    # the key context may stay open across several encryptions (and nested contexts); the one
                    # that is judged is the last
                    for j in range(warm):
                        with kf:
                            kf.encrypt(b"warm-up %d" % j, method=method if j % 2 == 0 else "best")
                    return kf.encrypt(text, method=method)
            sv, err = self._call(run)
        elif via == "provider":
            key = w.peek(kpath)
            if key is None or method == "best":
                rec.log("encrypt", "skip")
                return
            prov = self.provider(st, key, method, op.get("reuse"), rec)
            ct, err = self._call(lambda: prov.encrypt(pt))
            sv = SecureValue(method, ct) if err is None else None
        else:
            cfg = self.fieldcfg(st, kpath, op.get("reuse"), rec)
            fld = {"aes": st.schema.aes, "xor": st.schema.xor, "best": st.schema.best}[method]
            basic, err = self._call(lambda: fld.to_basic(cfg, text))
            sv = None
            if err is None:
                if not (isinstance(basic, dict) and set(basic) == {"method", "ciphertext"}):
                    rec.fail("C08/stored", "C08/stored-secret-shape", "SecureField.to_basic returned %r" % (basic,))
                sv = SecureValue(basic["method"], base64.b64decode(basic["ciphertext"]))
        rec.log("encrypt", kpath, method, via, len(pt), type(err).__name__ if err else "ok")
        rec.kind(method + ":" + via)
        rec.relevant += 1
        rec.check()
        if err is not None:
            rec.fail("C08/roundtrip", "C08/encrypt-raises/%s/%s/%s" % (method, via, type(err).__name__), "encrypt(%s) raised %r" % (method, err))
        key = w.peek(kpath)
        draws = w.draws[d0:]
        want = "xor" if method == "xor" else "aes"
        if sv.method != want:
            rec.fail("C08/method", "C08/method-not-concrete/%s->%s" % (method, sv.method), "recorded method %r for requested %r" % (sv.method, method))
        ct = sv.ciphertext
        if want == "xor":
            if ct != refcrypto.xor(pt, key):
                rec.fail("C08/xor", "C08/xor-not-plaintext-xor-key/%s" % via, "XOR ciphertext differs from plaintext xor key repeated")
            rec.probe("xor-checked" + (":longer-than-key" if len(pt) > 32 else ""))
        else:
            iv = ct[:16]
            earlier = [x["ct"][:16] for x in st.vault if x["method"] == "aes"]
            if not drawn_during(iv, draws) or iv in earlier:
                rec.fail("C08/iv", "C08/iv-not-one-fresh-draw/%s/%d" % (via, 0 if not drawn_during(iv, draws) else 2),
                         "the first 16 bytes of the AES value are not fresh random bytes drawn during this encryption")
            if ct[16:] != refcrypto.aes_cbc_encrypt(key, iv, pt):
                rec.fail("C08/aes", "C08/not-standard-aes-256-cbc-pkcs7/%s" % via,
                         "value[16:] differs from reference AES-256-CBC/PKCS7 of the plaintext under the key file's key and that IV")
            for old in st.vault:
                if old["method"] == "aes" and old["ct"] == ct:
                    rec.fail("C08/iv", "C08/equal-ciphertexts", "two AES encryptions produced the same value")
            rec.probe("aes-checked:len%d" % (len(pt) if len(pt) < 34 else 64))
        st.vault.append({"kpath": kpath, "key": key, "method": want, "ct": ct, "pt": pt, "basic": basic, "session": st.session})
        if len(st.vault) > 10:
            st.vault.pop(0)

    def do_decrypt(self, st, op, rec):
        w = st.world
        it = st.vault[op["item"] % len(st.vault)]
        kpath = it["kpath"]
        other = op.get("other_key")
        if other:
            kpath = [p for p in KEYPATHS if p != it["kpath"]][0]
        key = w.peek(kpath)
        if key is None or len(key) != 32:
            rec.log("decrypt", "skip")
            return
        via = op["via"]
        sv = SecureValue(it["method"], it["ct"])
        if via == "keyfile":
            kfobj = self.keyfile(st, kpath, op.get("reuse"), rec)

            def run():
                with kfobj as kf:
                    return kf.decrypt(sv)
            out, err = self._call(run)
        elif via == "provider":
            prov = self.provider(st, key, it["method"], op.get("reuse"), rec)
            out, err = self._call(lambda: prov.decrypt(it["ct"]))
        else:
            cfg = self.fieldcfg(st, kpath, op.get("reuse"), rec)
            stored = {"method": it["method"], "ciphertext": base64.b64encode(it["ct"]).decode()}
            out, err = self._call(lambda: st.schema.aes.to_python(cfg, stored))
            if err is None and isinstance(out, str):
                out = out.encode()
        same_key = key == it["key"]
        rec.log("decrypt", via, it["method"], same_key, type(err).__name__ if err else "ok")
        rec.kind(("same" if same_key else "other") + ":" + via)
        rec.relevant += 1
        rec.check()
        if same_key:
            if via == "field":
                try:
                    it["pt"].decode("utf-8")
                except UnicodeDecodeError:
                    return   # a secure *field* holds text; non-UTF-8 bytes are only claimed for the key file API
            if err is not None or out != it["pt"]:
                rec.fail("C08/roundtrip", "C08/decrypt-does-not-invert/%s/%s%s" % (it["method"], via, "/later-session" if it["session"] != st.session else ""),
                         "decrypt(encrypt(p)) gave %r / %r for a %d-byte plaintext" % (out if out is None else out[:20], err, len(it["pt"])))
            rec.probe("roundtrip" + (":later-session" if it["session"] != st.session else "") + ":" + via)
        else:
            rec.probe("decrypt-under-other-key:" + it["method"])
            # the statement claims this for AES; XOR under another key that shares a prefix with the right one
            # returns a short plaintext unchanged, by construction
            if err is None and out == it["pt"] and it["pt"] and it["method"] == "aes":
                rec.fail("C08/other-key", "C08/other-key-yields-plaintext/%s" % it["method"], "a different key decrypted the value to the plaintext")

    def do_tamper(self, st, op, rec):
        w = st.world
        it = st.vault[op["item"] % len(st.vault)]
        how, via, n = op["how"], op["via"], op.get("n", 1)
        key = w.peek(it["kpath"])
        if key is None:
            rec.log("tamper", "skip")
            return
        ct = it["ct"]
        method = it["method"]
        stored = {"method": method, "ciphertext": base64.b64encode(ct).decode()}
        claim = True
        if how == "short":
            ct2 = ct[: n % 32]
            claim = method == "aes"
            stored["ciphertext"] = base64.b64encode(ct2).decode()
        elif how == "unaligned":
            extra = (n % 15) + 1
            ct2 = ct + bytes(extra) if n % 2 else ct[: max(33, len(ct) - extra)] if len(ct) - extra >= 32 else ct + bytes(extra)
            claim = method == "aes" and len(ct2) % 16 != 0
            stored["ciphertext"] = base64.b64encode(ct2).decode()
        elif how in ("aligned-cut", "aligned-ext", "iv-flip"):
            # block-aligned damage: what a standard AES-256-CBC/PKCS7 implementation does with it decides
            if method != "aes" or len(ct) < 32:
                rec.log("tamper", "n/a")
                return
            blocks = (len(ct) - 16) // 16
            if how == "aligned-cut":
                keep = (n % blocks) if blocks > 1 else 1
                ct2 = ct[: 16 + 16 * max(1, keep)]
            elif how == "aligned-ext":
                ct2 = ct + bytes([(n * 7 + i) % 256 for i in range(16)])
            else:
                ct2 = bytes([ct[0] ^ (1 << (n % 8))]) + ct[1:]
            try:
                ref_out, ref_err = refcrypto.aes_cbc_decrypt(key, ct2[:16], ct2[16:]), None
            except Exception as exc:  # noqa: BLE001
                ref_out, ref_err = None, exc
            if via == "provider":
                out, err = self._call(lambda: AesProvider(key).decrypt(ct2))
            else:
                def run2():
                    with KeyFile(it["kpath"]) as kf:
                        return kf.decrypt(SecureValue("aes", ct2))
                out, err = self._call(run2)
            rec.log("tamper", how, via, type(err).__name__ if err else "ok", type(ref_err).__name__ if ref_err else "ok")
            rec.kind(how + ":" + via)
            rec.relevant += 1
            rec.check()
            rec.probe("tamper:" + how + (":ref-rejects" if ref_err else ":ref-accepts"))
            st.world.fired.append((st.world.step, {"kind": "tamper-" + how, "seam": "stored-secret", "errno": ""}))
            if (err is None) != (ref_err is None) or (err is None and out != ref_out):
                rec.fail("C08/aes", "C08/differs-from-standard-aes-on-damaged-value/%s" % how,
                         "a %s AES value: the library %s, a standard AES-256-CBC/PKCS7 implementation %s"
                         % (how, "returned %r" % (out[:20],) if err is None else "raised %s" % type(err).__name__,
                            "returns %r" % (ref_out[:20],) if ref_err is None else "rejects it (%s)" % type(ref_err).__name__))
            return
        else:
            ct2 = ct
            via = "field" if how != "method-unknown" else via
            if how == "method-unknown":
                method = "rot13"
                stored["method"] = "rot13"
            elif how == "method-missing":
                del stored["method"]
            elif how == "method-empty":
                stored["method"] = ""
            elif how == "ct-not-str":
                stored["ciphertext"] = rng_choice(n, [5, None, ["x"], {"a": 1}, True])
            elif how == "ct-missing":
                del stored["ciphertext"]
            elif how == "bad-base64":
                stored["ciphertext"] = rng_choice(n, ["a", "abc", "=abcd", "ab=c", "a" * 5])
            elif how == "not-a-map":
                stored = rng_choice(n, [5, ["aes", "x"], True, 1.5, ("aes",), 0, [], False, 0.0, {}, ()])
        if via == "provider" and how in ("short", "unaligned"):
            prov = AesProvider(key) if it["method"] == "aes" else XorProvider(key)
            out, err = self._call(lambda: prov.decrypt(ct2))
        elif via == "keyfile" and how in ("short", "unaligned", "method-unknown"):
            def run():
                with KeyFile(it["kpath"]) as kf:
                    return kf.decrypt(SecureValue(method, ct2))
            out, err = self._call(run)
        else:
            cfg = self.fieldcfg(st, it["kpath"], op.get("reuse"), rec)
            out, err = self._call(lambda: st.schema.best.to_python(cfg, stored))
        rec.log("tamper", how, via, it["method"], claim, type(err).__name__ if err else "ok")
        rec.kind(how + ":" + via)
        if not claim:
            rec.probe("tamper-no-claim:" + how)
            return
        rec.relevant += 1
        rec.check()
        rec.probe("tamper:" + how + ":" + via)
        st.world.fired.append((st.world.step, {"kind": "tamper-" + how, "seam": "stored-secret", "errno": ""}))
        if err is None:
            rec.fail("C08/malformed", "C08/malformed-value-accepted/%s/%s" % (how, via),
                     "a stored secret damaged by '%s' was not rejected: %s returned %r" % (how, via, out if out is None else out[:30]))


def rng_choice(n, seq):
    return seq[n % len(seq)]


# ======================================================================================= C09

ALGS = ["md5", "sha1", "sha224", "sha256", "sha384", "sha512"]
SECRETS = ["pw!one", "", "ünï!cöde", "x!" * 40, "a", "pass word!", "Pw!One", "\u0000nul!", "user:pass", "root:toor!", ":", "YWJj:ZGVm", "e\u0301le\u0300ve!", "\u212bngstro\u0308m!", "\u1100\u1161!pw",
           " lead!pw", "trail!pw ", "\tt!b\n", "  ", "long!" * 300, "x" * 1024 + "!tail", "y!" * 1024]


def drawn_during(value, draws):
    """Is `value` a contiguous run of bytes of one entropy draw made during the call?  ("fresh random": how many bytes the
    library asks for, and in how many requests, is its own business)"""
    return bool(value) and any(value in d[3] for d in draws)


def neighbours(p):
    b = p if isinstance(p, bytes) else p.encode()
    out = [b[:-1], b + b"\x00", b + b" ", b" " + b, b.swapcase(), b"", b[1:], b + b[-1:], b[::-1], b.strip(), b.lstrip(), b.rstrip()]
    return [q for q in out if q != b]


class ChallengeScenario(Scenario):
    prop = "C09"
    name = "challenge"
    max_ops = 22

    def header(self, seed, avoid):
        rng = stream(seed, "swarm")
        fields = []
        for i in range(rng.randint(1, 4)):
            alg = rng.choice(ALGS)
            dk = rng.choice(["none", "none", "plain", "digest"])
            f = {"key": "c%d" % i, "alg": alg, "where": rng.choice(["root", "root", "sub", "list"]), "default": dk}
            if dk == "plain":
                f["dv"] = rng.choice(SECRETS[:1] + SECRETS[2:])
            elif dk == "digest":
                salt = hashlib.sha512(b"salt%d" % i).digest()[: refcrypto.DIGEST_SIZE[alg]]
                f["dv"] = [salt.hex(), refcrypto.salted_hash(alg, salt, b"default!pw").hex()]
                # how the application obtained the digest value it declares: built from stored salt and digest, or created
                # from the plaintext with a salt of its own choice (of the digest's length, or longer: "will be truncated")
                f["made"] = rng.choice(["parts", "parts", "create", "create-long-salt"])
            if f["where"] == "list":
                f["default"] = "none"
            if rng.random() < 0.3:
                f["validator"] = rng.choice(["arg", "decorator"])     # a custom validator that accepts and returns what it is given
            if rng.random() < 0.3 and f["where"] != "list":
                # bound to an environment variable that is unset, or defined but empty: "as if no binding existed"
                f["env"] = rng.choice(["unset", "empty"])
            fields.append(f)
        return {"fields": fields, "max_ops": rng.randint(6, self.max_ops), "formats": rng.sample(ops.FORMATS, rng.randint(1, 5)),
                # the nested section may carry a feature flag that is off or unset: its fields are exempt from validation runs,
                # but a secret assigned there is hashed like anywhere else
                "sub_flag": rng.choice([None, None, "off", "unset", "on"])}

    def build(self, st):
        sch = cc.Schema()
        sch.other = cc.IntField(default=1)
        sch.inc = cc.IncludeField()
        for f in st.h["fields"]:
            kw = {}
            if f["default"] == "plain":
                kw["default"] = f["dv"]
            elif f["default"] == "digest":
                salt0 = bytes.fromhex(f["dv"][0])
                if f.get("made", "parts") == "parts":
                    kw["default"] = DigestValue(salt0, bytes.fromhex(f["dv"][1]), getattr(hashlib, f["alg"]))
                else:
                    given = salt0 if f["made"] == "create" else salt0 + b"-and-more"
                    kw["default"] = DigestValue.create(b"default!pw", getattr(hashlib, f["alg"]), salt=given)
            if f.get("env"):
                kw["env"] = "C09_%s" % f["key"].upper()
                if f["env"] == "empty":
                    st.world.env[kw["env"]] = ""
            if f.get("validator") == "arg":
                kw["validator"] = lambda cfg, value: value
            fld = cc.ChallengeField(f["alg"] if st.world.seed % 2 else f["alg"].upper(), **kw)
            if f.get("validator") == "decorator":
                cc.validator(fld)(lambda cfg, value: value)
            if f["where"] == "root":
                sch[f["key"]] = fld
            elif f["where"] == "sub":
                sch["sub." + f["key"]] = fld
            else:
                sch[f["key"]] = cc.ListField(fld)
        flag = st.h.get("sub_flag")
        if flag and any(f["where"] == "sub" for f in st.h["fields"]):
            sch["sub.enabled"] = cc.FeatureFlagField(default={"off": False, "unset": None, "on": True}[flag])
        return sch

    def get(self, st, f):
        cfg = st.cfg
        if f["where"] == "sub":
            return getattr(cfg.sub, f["key"])
        return getattr(cfg, f["key"])

    def put(self, st, f, v):
        cfg = st.cfg
        if f["where"] == "sub":
            setattr(cfg.sub, f["key"], v)
        elif f["where"] == "list":
            lst = getattr(cfg, f["key"])
            if lst is None:
                setattr(cfg, f["key"], [v])
            else:
                lst.append(v)
        else:
            setattr(cfg, f["key"], v)

    def start(self, header, world, rec):
        st = St()
        st.world = world
        st.h = header
        st.known = {}      # field key -> list of (plaintext bytes or None, salt, digest) per stored value (list fields: several)
        st.docs = []
        st.session = 0
        self.new_session(st, rec, first=True)
        return st

    def new_session(self, st, rec, first=False):
        seams.reset_process_state()
        w = st.world
        d0 = len(w.draws)
        st.schema = self.build(st)
        st.cfg = st.schema()
        st.session += 1
        st.known = {}
        draws = w.draws[d0:]
        # a second configuration of the same schema objects, in the same process: its plaintext defaults must
        # get salts of their own (fresh draws made during *its* construction)
        d1 = len(w.draws)
        other = st.schema()
        draws2 = w.draws[d1:]
        for f in st.h["fields"]:
            if f["default"] != "plain" or f["where"] == "list":
                continue
            a = self.get(st, f)
            b = getattr(other.sub, f["key"]) if f["where"] == "sub" else getattr(other, f["key"])
            rec.check()
            self.check_digest(st, rec, f, b, f["dv"].encode(), "default-second-config")
            if b.salt == a.salt:
                rec.fail("C09/salt", "C09/salt-reused/default-across-configurations", "two configurations of one schema share the salt of a plaintext default")
            if not drawn_during(b.salt, draws2):
                rec.fail("C09/salt", "C09/salt-not-a-fresh-draw/default-second-config", "the second configuration's default salt was not drawn during its construction")
            rec.probe("second-config-default-salt-fresh")
        # defaults
        for f in st.h["fields"]:
            v = None if f["where"] == "list" else self.get(st, f)
            size = refcrypto.DIGEST_SIZE[f["alg"]]
            rec.check()
            if f["default"] == "plain":
                self.check_digest(st, rec, f, v, f["dv"].encode(), "default")
                if not drawn_during(v.salt, draws):
                    rec.fail("C09/salt", "C09/salt-not-a-fresh-draw/default", "the salt of a plaintext default is not an entropy draw of this construction")
                st.known[f["key"]] = [(f["dv"].encode(), v.salt, v.digest)]
            elif f["default"] == "digest":
                if not isinstance(v, DigestValue) or v.salt.hex() != f["dv"][0] or v.digest.hex() != f["dv"][1]:
                    rec.fail("C09/default", "C09/digest-default-altered", "a DigestValue default is exposed as %r" % (v,))
                st.known[f["key"]] = [(b"default!pw", v.salt, v.digest)]
            elif f["where"] != "list" and v is not None:
                rec.fail("C09/default", "C09/unset-challenge-has-value", "%s is %r" % (f["key"], v))

    def check_digest(self, st, rec, f, v, pt, route):
        size = refcrypto.DIGEST_SIZE[f["alg"]]
        if not isinstance(v, DigestValue):
            rec.fail("C09/stored", "C09/not-a-digest-value/%s" % route, "%s holds %r" % (f["key"], type(v).__name__))
        if len(v.salt) != size:
            rec.fail("C09/salt", "C09/salt-length/%s/%s" % (route, f["alg"]), "salt of %d bytes for %s (digest size %d)" % (len(v.salt), f["alg"], size))
        if v.digest != refcrypto.salted_hash(f["alg"], v.salt, pt):
            rec.fail("C09/hash", "C09/digest-is-not-hash-of-salt-plus-secret/%s/%s" % (route, f["alg"]),
                     "stored digest differs from %s(salt + secret)" % f["alg"])

    def gen_op(self, st, rng):
        f = rng.choice(st.h["fields"])
        r = rng.random()
        have = st.known.get(f["key"])
        if r < 0.3 or not have:
            p = rng.choice(SECRETS)
            if have and rng.random() < 0.3 and have[-1][0] is not None:
                p = have[-1][0].decode("utf-8", "replace")
            return {"op": "assign", "f": f["key"], "p": p, "as_bytes": rng.random() < 0.3}
        if r < 0.6:
            return {"op": "challenge", "f": f["key"], "i": rng.randrange(len(have)), "same": rng.random() < 0.4, "n": rng.randrange(9),
                    "as_bytes": rng.random() < 0.5}
        if r < 0.7:
            return {"op": "repr", "f": f["key"], "i": rng.randrange(len(have))}
        if r < 0.82:
            return {"op": "save", "fmt": rng.choice(st.h["formats"]), "file": rng.choice(["/data/ch1", "/data/ch2"])}
        if r < 0.94 and st.docs:
            return {"op": "restart_load", "doc": rng.randrange(len(st.docs))}
        return {"op": "handwritten", "f": f["key"], "fmt": rng.choice(ops.FORMATS), "p": rng.choice([s for s in SECRETS if s]),
                "via_include": rng.random() < 0.3}

    def field(self, st, key):
        return next(f for f in st.h["fields"] if f["key"] == key)

    def _call(self, fn):
        try:
            return fn(), None
        except SeamGap:
            raise
        except Exception as exc:  # noqa: BLE001
            return None, exc

    def values_of(self, st, f):
        v = self.get(st, f)
        if f["where"] == "list":
            return list(v) if v is not None else []
        return [v] if v is not None else []

    def apply(self, st, op, rec):
        w = st.world
        k = op["op"]
        if k == "assign":
            f = self.field(st, op["f"])
            p = op["p"].encode() if op.get("as_bytes") else op["p"]
            pt = op["p"].encode()
            d0 = len(w.draws)
            _, err = self._call(lambda: self.put(st, f, p))
            rec.log("assign", f["key"], f["alg"], len(pt), type(err).__name__ if err else "ok")
            rec.kind(f["alg"] + ":" + f["where"])
            rec.relevant += 1
            rec.check()
            if err is not None:
                rec.fail("C09/assign", "C09/assign-raises/%s" % type(err).__name__, "assigning a secret raised %r" % (err,))
            vals = self.values_of(st, f)
            v = vals[-1]
            self.check_digest(st, rec, f, v, pt, "assign")
            draws = [d for d in w.draws[d0:]]
            size = refcrypto.DIGEST_SIZE[f["alg"]]
            if len(v.salt) != size or not drawn_during(v.salt, draws):
                rec.fail("C09/salt", "C09/salt-not-a-fresh-draw/assign",
                         "the stored salt (%d bytes, digest size %d) is not made of random bytes drawn during the assignment" % (len(v.salt), size))
            prev = st.known.get(f["key"], [])
            if any(s == v.salt for _, s, _ in prev):
                rec.fail("C09/salt", "C09/salt-reused", "two assignments share a salt")
            if f["where"] == "list":
                st.known.setdefault(f["key"], []).append((pt, v.salt, v.digest))
            else:
                st.known[f["key"]] = [(pt, v.salt, v.digest)]
            rec.probe("assigned:" + f["alg"])
        elif k == "challenge":
            f = self.field(st, op["f"])
            have = st.known.get(f["key"])
            vals = self.values_of(st, f)
            if not have or not vals:
                rec.log("challenge", "skip")
                return
            i = op["i"] % min(len(have), len(vals))
            pt, salt, dig = have[i]
            v = vals[i]
            if pt is None:
                rec.log("challenge", "skip")
                return
            if op.get("same"):
                q = pt
            else:
                ns = neighbours(pt)
                q = ns[op["n"] % len(ns)]
            arg = q
            if not op.get("as_bytes"):
                try:
                    arg = q.decode("utf-8")
                except UnicodeDecodeError:
                    arg = q
            _, err = self._call(lambda: v.challenge(arg))
            rec.log("challenge", f["key"], q == pt, type(err).__name__ if err else "ok")
            rec.kind("same" if q == pt else "other")
            rec.relevant += 1
            rec.check()
            if q == pt:
                if err is not None:
                    rec.fail("C09/challenge", "C09/challenge-with-secret-fails/%s" % f["alg"], "challenge(p) raised %r" % (err,))
                rec.probe("challenge-ok")
            else:
                if err is None:
                    rec.fail("C09/challenge", "C09/challenge-with-other-value-succeeds/%s/n%d" % (f["alg"], op["n"] % 9),
                             "challenge(q) succeeded for q=%r different from the secret %r" % (q, pt))
                if not isinstance(err, ValueError):
                    rec.fail("C09/challenge", "C09/challenge-failure-not-valueerror/%s" % type(err).__name__, "challenge(q) raised %r" % (err,))
                rec.probe("challenge-rejected")
        elif k == "repr":
            f = self.field(st, op["f"])
            have = st.known.get(f["key"])
            vals = self.values_of(st, f)
            if not have or not vals:
                rec.log("repr", "skip")
                return
            i = op["i"] % min(len(have), len(vals))
            pt = have[i][0]
            rec.log("repr", f["key"])
            if pt is None or len(pt) < 4:
                return
            rec.check()
            rec.relevant += 1
            text = repr(vals[i]) + str(vals[i]) + repr(tuple(vals[i])) + repr(vars(vals[i]) if hasattr(vals[i], "__dict__") else "")
            # the documented text form "salt:digest" parses back to the same salt and digest
            back, pe = self._call(lambda: DigestValue.parse(str(vals[i]), vals[i].algorithm))
            if pe is None and back.salt == vals[i].salt and back.digest == vals[i].digest:
                rec.probe("text-form-parses-back")          # DigestValue.parse / create(salt=) are outside C09's statement: reach only
            # an explicit salt of at least the digest size is used (truncated to it); hash(salt + p) again
            size = refcrypto.DIGEST_SIZE[f["alg"]]
            salt = bytes(range(size + 5))
            dv, ce = self._call(lambda: DigestValue.create(pt, vals[i].algorithm, salt=salt))
            if ce is None and dv.salt == salt[:size] and dv.digest == refcrypto.salted_hash(f["alg"], salt[:size], pt):
                rec.probe("explicit-salt-used")
            try:
                s = pt.decode("utf-8")
            except UnicodeDecodeError:
                s = None
            if (s and s in text) or repr(pt)[2:-1] in text:
                rec.fail("C09/plaintext", "C09/plaintext-in-memory-value", "the plaintext occurs in repr/str of the stored value")
        elif k == "save":
            fmt, fname = op["fmt"], op["file"]
            tree, e0 = self._call(lambda: st.cfg.to_tree())
            if e0 is not None or not ops.in_format_domain(fmt, tree):
                rec.log("save", "skip")
                return
            _, err = self._call(lambda: st.cfg.save(fname, fmt))
            rec.log("save", fmt, type(err).__name__ if err else "ok")
            rec.kind(fmt)
            if err is not None:
                rec.fail("C09/persist", "C09/save-raises/%s/%s" % (fmt, type(err).__name__), "save raised %r" % (err,))
            content = w.peek(fname)
            rec.check()
            rec.relevant += 1
            for key, lst in st.known.items():
                for pt, salt, dig in lst:
                    if pt is not None and len(pt) >= 5 and b"!" in pt and pt in content:
                        rec.fail("C09/plaintext", "C09/plaintext-on-disk/%s" % fmt, "the secret of %s occurs in the saved %s document" % (key, fmt))
            st.docs = [d for d in st.docs if d["file"] != fname]
            st.docs.append({"file": fname, "fmt": fmt, "known": {k_: list(v_) for k_, v_ in st.known.items()}})
            rec.probe("saved:" + fmt)
        elif k == "restart_load":
            if not st.docs:
                rec.log("restart_load", "skip")
                return
            doc = st.docs[op["doc"] % len(st.docs)]
            self.new_session(st, rec)
            _, err = self._call(lambda: st.cfg.load(doc["file"], doc["fmt"]))
            rec.log("restart_load", doc["fmt"], type(err).__name__ if err else "ok")
            rec.kind(doc["fmt"])
            rec.relevant += 1
            rec.check()
            if err is not None:
                rec.fail("C09/persist", "C09/load-raises/%s/%s" % (doc["fmt"], type(err).__name__), "loading the saved document raised %s: %s" % (type(err).__name__, err))
            for f in st.h["fields"]:
                want = doc["known"].get(f["key"])
                if want is None:
                    continue
                vals = self.values_of(st, f)
                if len(vals) != len(want):
                    rec.fail("C09/persist", "C09/values-lost-on-reload/%s" % f["where"], "%s has %d values after reload, had %d" % (f["key"], len(vals), len(want)))
                for v, (pt, salt, dig) in zip(vals, want):
                    if not isinstance(v, DigestValue) or v.salt != salt or v.digest != dig:
                        rec.fail("C09/persist", "C09/salt-or-digest-changed-on-reload/%s/%s" % (doc["fmt"], f["where"]),
                                 "%s: salt/digest differ after save+load (%s)" % (f["key"], doc["fmt"]))
                st.known[f["key"]] = list(want)
            rec.probe("reloaded:" + doc["fmt"])
        elif k == "handwritten":
            f = self.field(st, op["f"])
            fmt = op["fmt"]
            p = op["p"]
            if f["where"] == "sub":
                tree = {"sub": {f["key"]: p}}
            elif f["where"] == "list":
                tree = {f["key"]: [p]}
            else:
                tree = {f["key"]: p}
            if not ops.in_format_domain(fmt, tree):
                rec.log("handwritten", "skip")
                return
            old_v = self.values_of(st, f)
            if op.get("via_include") and f["where"] == "root" and old_v and type(old_v[-1]).__name__ == "DigestValue":
                # the main document still carries the stored salt/digest pair of an earlier save; the new secret is written
                # by hand into a file that the main document includes (included values override the including document's)
                w.poke("/data/hand-inc." + fmt, ops.write_doc(fmt, tree))
                stored = {"salt": base64.b64encode(old_v[-1].salt).decode(), "digest": base64.b64encode(old_v[-1].digest).decode()}
                w.poke("/data/hand." + fmt, ops.write_doc(fmt, {f["key"]: stored, "inc": "/data/hand-inc." + fmt}))
                rec.probe("handwritten-in-included-file")
            else:
                w.poke("/data/hand." + fmt, ops.write_doc(fmt, tree))
            self.new_session(st, rec)
            d0 = len(w.draws)
            _, err = self._call(lambda: st.cfg.load("/data/hand." + fmt, fmt))
            self._call(lambda: setattr(st.cfg, "inc", None))      # the include directive is not meant to be saved with later documents
            rec.log("handwritten", fmt, f["key"], type(err).__name__ if err else "ok")
            rec.kind(fmt)
            rec.relevant += 1
            rec.check()
            if err is not None:
                rec.fail("C09/handwritten", "C09/handwritten-plaintext-rejected/%s/%s" % (fmt, type(err).__name__), "loading a hand-written plaintext raised %r" % (err,))
            vals = self.values_of(st, f)
            if not vals:
                rec.fail("C09/handwritten", "C09/handwritten-plaintext-lost", "no value after loading a hand-written plaintext")
            v = vals[-1]
            self.check_digest(st, rec, f, v, p.encode(), "handwritten")
            _, e2 = self._call(lambda: v.challenge(p))
            if e2 is not None:
                rec.fail("C09/handwritten", "C09/handwritten-plaintext-not-verifiable", "challenge(p) fails after loading the hand-written plaintext")
            st.known[f["key"]] = [(p.encode(), v.salt, v.digest)]
            # loading {"sub": {...}} replaces the whole sub-configuration: its other challenge fields are back
            # at their (re-hashed) defaults; keep the model in step with what is really there
            for g in st.h["fields"]:
                if g is f or g["where"] != "sub" or f["where"] != "sub":
                    continue
                gv = self.get(st, g)
                if g["default"] == "plain":
                    self.check_digest(st, rec, g, gv, g["dv"].encode(), "default-after-load")
                    st.known[g["key"]] = [(g["dv"].encode(), gv.salt, gv.digest)]
                elif g["default"] == "digest":
                    st.known[g["key"]] = [(b"default!pw", gv.salt, gv.digest)]
                else:
                    st.known.pop(g["key"], None)
            out, e3 = self._call(lambda: st.cfg.dumps(fmt))
            if e3 is None and len(p) >= 5 and "!" in p and p.encode() in out:
                rec.fail("C09/plaintext", "C09/plaintext-on-disk/after-handwritten/%s" % fmt, "the next dump still contains the hand-written plaintext")
            rec.probe("handwritten:" + fmt)


C08 = CipherScenario()
C09 = ChallengeScenario()
