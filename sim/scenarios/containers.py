"""C17 -- typed list/dict values behave like built-in list/dict of validated items.

A proxy obtained from a real configuration runs next to a built-in list/dict that holds the
normalised forms (reference model) of the same items; after every operation contents, order, length
and return value are compared type-exactly.  Arguments are always *acceptable* (every item is valid
for the item field); all iterable kinds are used (list, tuple, iterator, generator, another typed
container of the same field in the same / another configuration, of a different field).
"""
import cincoconfig as cc

from .. import model, schema, values
from ..codec import IndexObj, MapObj, canon, dec, enc
from ..engine import Scenario, stream
from ..model import OK
from ..world import SeamGap

ITEM_SPECS = [
    {"kind": "int", "o": {}},
    {"kind": "int", "o": {"min": 0, "max": 100}},
    {"kind": "string", "o": {"transform_strip": True, "transform_case": "lower"}},
    {"kind": "string", "o": {"max_len": 8}},
    {"kind": "float", "o": {}},
    {"kind": "bool", "o": {}},
    {"kind": "ipv4addr", "o": {}},
    {"kind": "port", "o": {}},
    {"kind": "bytes", "o": {}},
    {"kind": "url", "o": {}},
    {"kind": "hostname", "o": {}},
    # item fields with a custom validator that rewrites the item: what is stored is its result, once
    {"kind": "string", "o": {}, "validator": "tag"},
    {"kind": "int", "o": {}, "validator": "tag"},
]
KEY_SPECS = [
    {"kind": "string", "o": {"transform_strip": True, "transform_case": "upper"}},
    {"kind": "string", "o": {}},
    {"kind": "int", "o": {}},
    {"kind": "ipv4addr", "o": {}},
]


class St:
    pass


def same(a, b):
    return canon(a) == canon(b)


class ContainerScenario(Scenario):
    prop = "C17"
    name = "containers"
    max_ops = 40

    def header(self, seed, avoid):
        rng = stream(seed, "swarm")
        lists = [rng.choice(ITEM_SPECS) for _ in range(rng.randint(1, 3))]
        dicts = []
        for _ in range(rng.randint(1, 2)):
            d = {}
            if rng.random() < 0.8:
                d["kf"] = rng.choice(KEY_SPECS)
            if rng.random() < 0.85 or "kf" not in d:
                d["vf"] = rng.choice(ITEM_SPECS)
            dicts.append(d)
        return {"lists": lists, "dicts": dicts, "max_ops": rng.randint(5, self.max_ops), "p_dict": rng.choice([0.2, 0.4, 0.6]),
                "avoid": sorted(avoid)}

    def start(self, header, world, rec):
        st = St()
        st.world = world
        st.h = header
        values.seed_world(world)
        st.ctx = values.Ctx(world)
        B = schema.Built()
        sd = {"types": {}, "shared": {}}
        sch = cc.Schema()
        st.lspec, st.dspec = {}, {}
        for i, spec in enumerate(header["lists"]):
            node = {"kind": "list", "o": {}, "item": spec}
            sch["L%d" % i] = schema.make_field(B, sd, node, "L%d" % i)
            st.lspec["L%d" % i] = spec
        for i, d in enumerate(header["dicts"]):
            node = dict({"kind": "dict", "o": {}}, **d)
            sch["D%d" % i] = schema.make_field(B, sd, node, "D%d" % i)
            st.dspec["D%d" % i] = d
        pt = cc.Schema()
        pt.x = cc.IntField(default=0)
        pt.y = cc.IntField(default=0)
        st.Point = cc.make_type(pt, "Point", module="simtypes")
        sch.CL = cc.ListField(st.Point)
        st.cm = [[], []]
        st.schema = sch
        st.cfgs = [sch(), sch()]
        st.m = [{}, {}]     # per config: name -> model (list or dict); absent = proxy not created yet
        for c in (0, 1):
            st.cfgs[c].CL = []
            for name in list(st.lspec) + list(st.dspec):
                setattr(st.cfgs[c], name, [] if name in st.lspec else {})
                st.m[c][name] = [] if name in st.lspec else {}
        return st

    # ------------------------------------------------------------------ generation helpers
    def valid_item(self, st, rng, spec):
        for _ in range(30):
            raw = values.gen_value(rng, spec, "valid", st.ctx)
            r = model.norm(spec, raw, st.ctx)
            if isinstance(r, OK) and raw is not None and not isinstance(r.v, (model.Digest, model.TList, model.TDict)):
                if isinstance(r.v, float) and r.v != r.v:
                    continue
                return raw
        return None

    def gen_op(self, st, rng):
        c = rng.randrange(2)
        if rng.random() < st.h["p_dict"]:
            return self.gen_dict_op(st, rng, c)
        name = rng.choice(sorted(st.lspec))
        spec = st.lspec[name]
        m = st.m[c][name]
        n = len(m)

        def item():
            return enc(self.valid_item(st, rng, spec))

        def items(k=None):
            k = rng.choice([0, 1, 2, 3]) if k is None else k
            return [item() for _ in range(k)]

        def source():
            kind = rng.choice(["list", "tuple", "iter", "gen", "proxy-same-cfg", "proxy-other-cfg", "proxy-other-field", "list"])
            return kind

        if rng.random() < 0.06:
            return self.gen_cfglist_op(st, rng, c)
        what = rng.choice(["append", "append", "insert", "extend", "extend", "setitem", "setitem_indexobj", "slice_set", "xslice_set",
                           "iadd", "add", "radd", "mul", "imul", "copy", "copy_module", "pop", "remove", "delitem", "delslice", "sort", "reverse", "clear",
                           "index", "count", "contains", "getitem", "getslice", "eq", "iter"])
        op = {"op": "l:" + what, "cfg": c, "name": name}
        if what == "append":
            op["v"] = item()
        elif what == "insert":
            op["i"] = rng.randint(-n - 2, n + 2)
            op["v"] = item()
        elif what == "radd":
            op["vs"] = items()
        elif what in ("extend", "iadd", "add"):
            op["src"] = source()
            op["vs"] = items()
            op["other"] = rng.choice(sorted(st.lspec))
        elif what in ("setitem", "setitem_indexobj"):
            if not n:
                op["op"] = "l:append"
                op["v"] = item()
            else:
                op["i"] = rng.randint(-n, n - 1)
                op["v"] = item()
        elif what == "slice_set":
            a = rng.randint(0, n)
            op["a"], op["b"] = a, rng.randint(a, n)
            op["src"] = source()
            op["vs"] = items()
            op["other"] = rng.choice(sorted(st.lspec))
        elif what == "xslice_set":
            step = rng.choice([2, 3, -1])
            idx = list(range(n))[::step]
            op["step"] = step
            op["vs"] = items(len(idx))
            op["src"] = rng.choice(["list", "tuple", "iter"])
        elif what in ("mul", "imul"):
            op["n"] = rng.choice([0, 1, 2, 3, -1]) if n <= 60 else rng.choice([0, 1, -1])      # no exponential growth over long histories
        elif what == "pop":
            op["i"] = rng.choice([None, rng.randint(-n - 1, n)]) if n else rng.choice([None, 0])
        elif what in ("remove", "index", "count", "contains"):
            op["v"] = enc(rng.choice(m)) if m and rng.random() < 0.7 else item()
            op["norm"] = bool(m) and rng.random() < 0.7
        elif what == "delitem":
            op["i"] = rng.randint(-n - 1, n)
        elif what in ("delslice", "getslice"):
            a = rng.randint(0, n)
            op["a"], op["b"] = a, rng.randint(a, n)
        elif what == "sort":
            op["reverse"] = rng.random() < 0.5
        elif what == "getitem":
            op["i"] = rng.randint(-n - 1, n)
        return op

    def gen_dict_op(self, st, rng, c):
        name = rng.choice(sorted(st.dspec))
        d = st.dspec[name]
        kf, vf = d.get("kf"), d.get("vf")
        m = st.m[c][name]

        def key():
            if m and rng.random() < 0.35:
                return enc(rng.choice(list(m)))
            if kf:
                return enc(self.valid_item(st, rng, kf))
            return rng.choice(["k1", "k2", "k3", "k4"])

        def val():
            if vf:
                return enc(self.valid_item(st, rng, vf))
            return rng.choice([1, "x", None, [1]])

        def pairs():
            return [[key(), val()] for _ in range(rng.choice([0, 1, 2, 3]))]

        what = rng.choice(["setitem", "setitem", "update_dict", "update_pairs", "update_kwargs", "update_proxy", "update_mapping",
                           "update_dict_kwargs", "setdefault", "setdefault_nodefault", "ior", "ior_pairs", "or", "pop", "pop_default", "popitem",
                           "delitem", "clear", "copy", "get", "contains", "keys", "eq"])
        op = {"op": "d:" + what, "cfg": c, "name": name}
        if what in ("setitem", "setdefault"):
            op["k"], op["v"] = key(), val()
        elif what == "setdefault_nodefault":
            op["k"] = key()
        elif what in ("update_dict", "update_pairs", "ior", "ior_pairs", "or", "update_mapping"):
            op["pairs"] = pairs()
            if what == "ior_pairs":
                op["as"] = rng.choice(["list", "tuple", "iter"])
        elif what in ("update_kwargs", "update_dict_kwargs"):
            op["pairs"] = pairs()
            op["kw"] = [[rng.choice(["k1", "k2", "ab"]), val()] for _ in range(rng.choice([1, 2]))]
        elif what in ("pop", "pop_default", "delitem", "get", "contains"):
            op["k"] = key()
        return op

    # ------------------------------------------------------------------ execution
    def norm_item(self, st, spec, raw):
        r = model.norm(spec, raw, st.ctx)
        if not isinstance(r, OK):
            return None, False
        return r.v, True

    def _both(self, real, ref):
        """Run the real and the reference operation; -> (ret_real, err_real, ret_ref, err_ref)"""
        try:
            r, e = real(), None
        except SeamGap:
            raise
        except Exception as exc:  # noqa: BLE001
            r, e = None, exc
        try:
            r2, e2 = ref(), None
        except Exception as exc:  # noqa: BLE001
            r2, e2 = None, exc
        return r, e, r2, e2

    def compare(self, st, rec, what, proxy, m, r, e, r2, e2, check_ret=True, kind="list"):
        rec.check()
        rec.relevant += 1
        if (e is None) != (e2 is None):
            rec.fail("C17/outcome", "C17/outcome-differs/%s/%s" % (what, type(e or e2).__name__),
                     "%s: typed container %s, built-in %s" % (what, "raised %r" % (e,) if e else "returned %r" % (canon(r),),
                                                            "raised %r" % (e2,) if e2 else "returned %r" % (canon(r2),)))
        if e is not None and not isinstance(e, type(e2)) and not isinstance(e2, type(e)):
            rec.fail("C17/outcome", "C17/exception-class-differs/%s/%s-vs-%s" % (what, type(e).__name__, type(e2).__name__),
                     "%s raised %r where the built-in raises %r" % (what, e, e2))
        if e is None and check_ret and not same(r, r2):
            rec.fail("C17/return", "C17/return-value-differs/%s" % what, "%s returned %r, the built-in returns %r" % (what, canon(r), canon(r2)))
        if kind == "list":
            got = list(list.__iter__(proxy))
            if not same(got, m):
                rec.fail("C17/contents", "C17/contents-differ/%s" % what, "after %s the typed list holds %r, the built-in %r" % (what, canon(got), canon(m)))
        else:
            got = dict(dict.items(proxy))
            if canon(list(got.items())) != canon(list(m.items())):
                rec.fail("C17/contents", "C17/contents-differ/%s" % what,
                         "after %s the typed dict holds %r, the built-in %r" % (what, canon(list(got.items())), canon(list(m.items()))))

    # ------------------------------------------------------------------ a list of config-type items (compared by value)
    def gen_cfglist_op(self, st, rng, c):
        what = rng.choice(["append", "append", "index", "index_bounds", "count", "contains", "remove", "pop"])
        return {"op": "c:" + what, "cfg": c, "x": rng.randint(0, 2), "y": rng.randint(0, 1), "a": rng.randint(-1, 3), "b": rng.randint(0, 4), "i": rng.randint(0, 3)}

    def do_cfglist(self, st, op, rec):
        """Items are instances of a config type, which compare by value: the reference list holds the very objects the
        typed list holds, so every query must answer exactly as the built-in does for them."""
        c = op["cfg"] % 2
        proxy = getattr(st.cfgs[c], "CL")
        m = st.cm[c]
        what = op["op"][2:]
        rec.log(op["op"], c)
        rec.kind("cfglist")
        probe = st.Point(x=op["x"], y=op["y"])
        if what == "append":
            r, e, _, _ = self._both(lambda: proxy.append({"x": op["x"], "y": op["y"]}), lambda: None)
            if e is None:
                m.append(list.__getitem__(proxy, len(proxy) - 1))
            rec.probe("cfglist-append")
            return
        if what == "index":
            res = self._both(lambda: proxy.index(probe), lambda: m.index(probe))
        elif what == "index_bounds":
            a, b = op["a"], op["b"]
            res = self._both(lambda: proxy.index(probe, a, b), lambda: m.index(probe, a, b))
        elif what == "count":
            res = self._both(lambda: proxy.count(probe), lambda: m.count(probe))
        elif what == "contains":
            res = self._both(lambda: probe in proxy, lambda: probe in m)
        elif what == "remove":
            res = self._both(lambda: proxy.remove(probe), lambda: m.remove(probe))
        else:
            i = op["i"]
            res = self._both(lambda: proxy.pop(i) is None, lambda: m.pop(i) is None)
        r, e, r2, e2 = res
        rec.check()
        rec.relevant += 1
        if (e is None) != (e2 is None) or (e is None and r != r2):
            rec.fail("C17/return", "C17/config-item-query-differs/%s" % what,
                     "%s on a list of config-type items gave %r / %r, the built-in list of the same objects %r / %r" % (what, r, e, r2, e2))
        got = list(list.__iter__(proxy))
        if len(got) != len(m) or any(x is not y for x, y in zip(got, m)):
            rec.fail("C17/contents", "C17/contents-differ/config-items/%s" % what, "after %s the typed list holds other objects than the built-in" % what)
        rec.probe("cfglist-query:" + what)

    def apply(self, st, op, rec):
        if op["op"].startswith("c:"):
            self.do_cfglist(st, op, rec)
        elif op["op"].startswith("l:"):
            self.do_list(st, op, rec)
        else:
            self.do_dict(st, op, rec)

    def make_source(self, st, op, spec, c, name):
        """-> (argument for the real call, list of normalised items for the reference) or None"""
        raws = [dec(x) for x in op.get("vs", [])]
        norms = []
        for x in raws:
            v, ok = self.norm_item(st, spec, x)
            if not ok:
                return None
            norms.append(v)
        src = op.get("src", "list")
        if spec.get("validator") == "tag" and (src in ("proxy-same-cfg", "proxy-other-cfg") or (src == "proxy-other-field" and op.get("other", name) == name)):
            # items that this very field has already normalised are put in again: with a validator that is not idempotent
            # the statement does not say whether they are normalised a second time, so such sources are not used
            src = "list"
        if src == "list":
            return list(raws), norms
        if src == "tuple":
            return tuple(raws), norms
        if src == "iter":
            return iter(list(raws)), norms
        if src == "gen":
            return (x for x in list(raws)), norms
        if src == "proxy-same-cfg":
            return getattr(st.cfgs[c], name).copy(), list(st.m[c][name])
        if src == "proxy-other-cfg":
            return getattr(st.cfgs[1 - c], name), list(st.m[1 - c][name])
        if src == "proxy-other-field":
            other = op.get("other", name)
            # items of another field are put in: they are normalised by this field (and must be acceptable to it)
            oitems = list(st.m[c][other])
            out = []
            for x in oitems:
                v, ok = self.norm_item(st, spec, x)
                if not ok:
                    return list(raws), norms
                out.append(v)
            return getattr(st.cfgs[c], other), out
        return list(raws), norms

    def do_list(self, st, op, rec):
        c, name = op["cfg"] % 2, op["name"]
        if name not in st.lspec:
            rec.log("skip")
            return
        spec = st.lspec[name]
        proxy = getattr(st.cfgs[c], name)
        m = st.m[c][name]
        what = op["op"][2:]
        n = len(m)
        if type(proxy).__name__ != "ListProxy":
            rec.fail("C17/type", "C17/value-not-a-typed-list", "%s is %s" % (name, type(proxy).__name__))
        v = nv = None
        if "v" in op:
            v = dec(op["v"])
            nv, ok = self.norm_item(st, spec, v)
            if not ok:
                rec.log("skip-unacceptable")
                return
        rec.log(op["op"], name, c)
        rec.kind(op.get("src", ""))
        if what == "append":
            self.compare(st, rec, what, proxy, m, *self._both(lambda: proxy.append(v), lambda: m.append(nv)))
        elif what == "insert":
            i = op["i"]
            self.compare(st, rec, what, proxy, m, *self._both(lambda: proxy.insert(i, v), lambda: m.insert(i, nv)))
        elif what in ("extend", "iadd", "add"):
            made = self.make_source(st, op, spec, c, name)
            if made is None:
                return
            arg, norms = made
            rec.probe("list-%s:%s" % (what, op.get("src")))
            if what == "extend":
                self.compare(st, rec, what + ":" + op.get("src", ""), proxy, m, *self._both(lambda: proxy.extend(arg), lambda: m.extend(norms)))
            elif what == "iadd":
                r, e, r2, e2 = self._both(lambda: proxy.__iadd__(arg), lambda: m.__iadd__(norms))
                self.compare(st, rec, "iadd:" + op.get("src", ""), proxy, m, r, e, r2, e2, check_ret=False)
                if e is None and r is not proxy:
                    rec.fail("C17/identity", "C17/iadd-returns-new-object", "+= returned a different object")
            else:
                r, e, r2, e2 = self._both(lambda: proxy + arg, lambda: m + norms)
                self.compare(st, rec, "add:" + op.get("src", ""), proxy, m, r, e, r2, e2, check_ret=False)
                if e is None:
                    self.check_typed_result(st, rec, "add", r, r2, spec, c)
        elif what == "copy_module":
            import copy as _copy
            r, e, r2, e2 = self._both(lambda: _copy.copy(proxy), lambda: _copy.copy(m))
            self.compare(st, rec, what, proxy, m, r, e, r2, e2, check_ret=False)
            if e is None:
                self.check_typed_result(st, rec, "copy", r, r2, spec, c)
        elif what == "radd":
            # a built-in list on the left: list.__add__ decides, the result starts with the left operand's items as given
            left = []
            for x in op.get("vs", []):
                nx, ok = self.norm_item(st, spec, dec(x))
                if not ok or spec.get("validator") == "tag":
                    rec.log("skip-unacceptable")
                    return
                left.append(nx)      # already normal: whether the left operand is validated too is left open
            r, e, r2, e2 = self._both(lambda: left + proxy, lambda: left + m)
            self.compare(st, rec, "radd", proxy, m, list(r) if r is not None else r, e, r2, e2)
        elif what in ("setitem", "setitem_indexobj"):
            i = op["i"]
            idx = IndexObj(i) if what == "setitem_indexobj" else i
            self.compare(st, rec, what, proxy, m, *self._both(lambda: proxy.__setitem__(idx, v), lambda: m.__setitem__(i, nv)))
        elif what == "slice_set":
            made = self.make_source(st, op, spec, c, name)
            if made is None:
                return
            arg, norms = made
            a, b = min(op["a"], n), min(op["b"], n)
            rec.probe("list-slice-set:%s" % op.get("src"))
            self.compare(st, rec, "slice_set:" + op.get("src", ""), proxy, m,
                         *self._both(lambda: proxy.__setitem__(slice(a, b), arg), lambda: m.__setitem__(slice(a, b), norms)))
        elif what == "xslice_set":
            made = self.make_source(st, op, spec, c, name)
            if made is None:
                return
            arg, norms = made
            step = op["step"]
            self.compare(st, rec, "xslice_set:" + op.get("src", ""), proxy, m,
                         *self._both(lambda: proxy.__setitem__(slice(None, None, step), arg), lambda: m.__setitem__(slice(None, None, step), norms)))
        elif what == "mul":
            k = op["n"]
            r, e, r2, e2 = self._both(lambda: proxy * k, lambda: m * k)
            self.compare(st, rec, what, proxy, m, list(r) if r is not None else r, e, r2, e2)
        elif what == "imul":
            k = op["n"]
            r, e, r2, e2 = self._both(lambda: proxy.__imul__(k), lambda: m.__imul__(k))
            self.compare(st, rec, what, proxy, m, r, e, r2, e2, check_ret=False)
        elif what == "copy":
            r, e, r2, e2 = self._both(lambda: proxy.copy(), lambda: m.copy())
            self.compare(st, rec, what, proxy, m, r, e, r2, e2, check_ret=False)
            if e is None:
                if r is proxy:
                    rec.fail("C17/identity", "C17/copy-returns-same-object", "copy() returned the list itself")
                self.check_typed_result(st, rec, "copy", r, r2, spec, c)
        elif what == "pop":
            i = op.get("i")
            self.compare(st, rec, what, proxy, m, *self._both((lambda: proxy.pop()) if i is None else (lambda: proxy.pop(i)),
                                                               (lambda: m.pop()) if i is None else (lambda: m.pop(i))))
        elif what in ("remove", "index", "count", "contains"):
            x = nv if op.get("norm") else v
            x2 = nv
            if what == "remove":
                self.compare(st, rec, what, proxy, m, *self._both(lambda: proxy.remove(nv), lambda: m.remove(nv)))
            elif what == "index":
                self.compare(st, rec, what, proxy, m, *self._both(lambda: proxy.index(nv), lambda: m.index(nv)))
            elif what == "count":
                self.compare(st, rec, what, proxy, m, *self._both(lambda: proxy.count(nv), lambda: m.count(nv)))
            else:
                self.compare(st, rec, what, proxy, m, *self._both(lambda: nv in proxy, lambda: nv in m))
            del x, x2
        elif what == "delitem":
            i = op["i"]
            self.compare(st, rec, what, proxy, m, *self._both(lambda: proxy.__delitem__(i), lambda: m.__delitem__(i)))
        elif what == "delslice":
            a, b = op["a"], op["b"]
            self.compare(st, rec, what, proxy, m, *self._both(lambda: proxy.__delitem__(slice(a, b)), lambda: m.__delitem__(slice(a, b))))
        elif what == "getslice":
            a, b = op["a"], op["b"]
            r, e, r2, e2 = self._both(lambda: proxy[a:b], lambda: m[a:b])
            self.compare(st, rec, what, proxy, m, list(r) if r is not None else r, e, r2, e2)
        elif what == "sort":
            rev = op.get("reverse", False)
            self.compare(st, rec, what, proxy, m, *self._both(lambda: proxy.sort(reverse=rev), lambda: m.sort(reverse=rev)))
        elif what == "reverse":
            self.compare(st, rec, what, proxy, m, *self._both(proxy.reverse, m.reverse))
        elif what == "clear":
            self.compare(st, rec, what, proxy, m, *self._both(proxy.clear, m.clear))
        elif what == "getitem":
            i = op["i"]
            self.compare(st, rec, what, proxy, m, *self._both(lambda: proxy[i], lambda: m[i]))
        elif what == "eq":
            self.compare(st, rec, what, proxy, m, *self._both(lambda: (proxy == list(m), len(proxy), bool(proxy)), lambda: (True, len(m), bool(m))))
        elif what == "iter":
            self.compare(st, rec, what, proxy, m, *self._both(lambda: [x for x in proxy] + list(reversed(proxy)), lambda: [x for x in m] + list(reversed(m))))

    def check_typed_result(self, st, rec, what, r, r2, spec, c):
        """Copies and concatenations remain typed and validated."""
        rec.check()
        if type(r).__name__ != "ListProxy":
            rec.fail("C17/typed", "C17/result-not-typed/%s/%s" % (what, type(r).__name__), "%s returned a %s" % (what, type(r).__name__))
        if spec.get("validator") == "tag":
            # the result is "typed and validated": whether that validates the items it takes over a second time is open, and
            # with a validator that is not idempotent the two readings give different contents
            rec.probe("typed-result-with-rewriting-validator:" + what)
        elif not same(list(list.__iter__(r)), r2):
            rec.fail("C17/contents", "C17/result-contents-differ/%s" % what, "%s gave %r, the built-in %r" % (what, canon(list(r)), canon(r2)))
        bad = {"int": "x", "float": "x", "string": 5, "bool": "maybe", "ipv4addr": "nope", "port": 0, "bytes": 5, "url": "noscheme", "hostname": "no such host"}[spec["kind"]]
        if model.norm(spec, bad, st.ctx) == model.REJ:
            try:
                r.append(bad)
                rec.fail("C17/typed", "C17/result-not-validated/%s" % what, "the result of %s accepted the invalid item %r" % (what, bad))
            except SeamGap:
                raise
            except Exception:  # noqa: BLE001
                rec.probe("typed-result-validates:" + what)

    # ------------------------------------------------------------------ dict side
    def npair(self, st, d, k, v):
        kf, vf = d.get("kf"), d.get("vf")
        nk, ok1 = self.norm_item(st, kf, k) if kf else (k, True)
        nv, ok2 = self.norm_item(st, vf, v) if vf else (v, True)
        try:
            hash(nk)
        except TypeError:
            return None, None, False
        return nk, nv, ok1 and ok2

    def do_dict(self, st, op, rec):
        c, name = op["cfg"] % 2, op["name"]
        if name not in st.dspec:
            rec.log("skip")
            return
        d = st.dspec[name]
        proxy = getattr(st.cfgs[c], name)
        m = st.m[c][name]
        what = op["op"][2:]
        if type(proxy).__name__ != "DictProxy":
            rec.fail("C17/type", "C17/value-not-a-typed-dict", "%s is %s" % (name, type(proxy).__name__))
        k = dec(op["k"]) if "k" in op else None
        v = dec(op["v"]) if "v" in op else None
        nk = nv = None
        if "k" in op:
            nk, nv, ok = self.npair(st, d, k, v if "v" in op else (self.valid_default(st, d)))
            if not ok:
                rec.log("skip-unacceptable")
                return
        raw_pairs, norm_pairs = [], []
        for a, b in op.get("pairs", []):
            a, b = dec(a), dec(b)
            na, nb, ok = self.npair(st, d, a, b)
            if not ok:
                rec.log("skip-unacceptable")
                return
            try:
                hash(a)
            except TypeError:
                rec.log("skip-unhashable")
                return
            raw_pairs.append((a, b))
            norm_pairs.append((na, nb))
        kw_raw, kw_norm = {}, {}
        for a, b in op.get("kw", []):
            b = dec(b)
            na, nb, ok = self.npair(st, d, a, b)
            if not ok:
                rec.log("skip-unacceptable")
                return
            kw_raw[a] = b
            kw_norm[na] = nb
        # a dict argument collapses equal *raw* keys first; the reference then applies the normalised pairs in
        # that order, one by one (like dict.update does)
        raw_d = dict(raw_pairs)
        by_raw = {}
        for (a, b), (na, nb) in zip(raw_pairs, norm_pairs):
            by_raw[a] = (na, nb)
        norm_of_dict = [by_raw[a] for a in raw_d]

        def ref_update(seq):
            for na, nb in seq:
                m[na] = nb

        rec.log(op["op"], name, c)
        cmpd = lambda w, *a, **kws: self.compare(st, rec, w, proxy, m, *a, kind="dict", **kws)  # noqa: E731
        if what == "setitem":
            cmpd(what, *self._both(lambda: proxy.__setitem__(k, v), lambda: m.__setitem__(nk, nv)))
        elif what == "setdefault":
            cmpd(what, *self._both(lambda: proxy.setdefault(k, v), lambda: m.setdefault(nk, nv)))
        elif what == "setdefault_nodefault":
            if d.get("vf") and d["vf"].get("o", {}).get("required"):
                return
            cmpd(what, *self._both(lambda: proxy.setdefault(k), lambda: m.setdefault(nk)))
        elif what == "update_dict":
            cmpd(what, *self._both(lambda: proxy.update(raw_d), lambda: ref_update(norm_of_dict)))
        elif what == "update_pairs":
            cmpd(what, *self._both(lambda: proxy.update(list(raw_pairs)), lambda: ref_update(norm_pairs)))
        elif what == "update_mapping":
            cmpd(what, *self._both(lambda: proxy.update(MapObj(list(raw_d.items()))), lambda: ref_update(norm_of_dict)))
        elif what == "update_kwargs":
            cmpd(what, *self._both(lambda: proxy.update(**kw_raw), lambda: m.update(**{str(a): b for a, b in kw_norm.items()}) if all(isinstance(a, str) for a in kw_norm) else m.update(kw_norm)))
        elif what == "update_dict_kwargs":
            def ref():
                ref_update(norm_of_dict)
                m.update(kw_norm)
            cmpd(what, *self._both(lambda: proxy.update(raw_d, **kw_raw), ref))
        elif what == "update_proxy":
            if (d.get("vf") or {}).get("validator") == "tag" or (d.get("kf") or {}).get("validator") == "tag":
                rec.log("skip-same-field-source")      # see make_source: re-normalisation of this field's own entries is left open
                return
            other = getattr(st.cfgs[1 - c], name)
            om = st.m[1 - c][name]
            cmpd(what, *self._both(lambda: proxy.update(other), lambda: m.update(dict(om))))
        elif what == "ior_pairs":
            # |= takes any iterable of pairs, as the built-in does
            src = {"list": list(raw_pairs), "tuple": tuple(raw_pairs), "iter": iter(list(raw_pairs))}[op.get("as", "list")]
            r, e, r2, e2 = self._both(lambda: proxy.__ior__(src), lambda: ref_update(norm_pairs))
            cmpd(what, r, e, r2, e2, check_ret=False)
        elif what == "ior":
            r, e, r2, e2 = self._both(lambda: proxy.__ior__(raw_d), lambda: ref_update(norm_of_dict))
            cmpd(what, r, e, r2, e2, check_ret=False)
            if e is None and r is not proxy:
                rec.fail("C17/identity", "C17/ior-returns-new-object", "|= returned a different object")
        elif what == "or":
            # `|` is not among the operations C17 lists (only |=): used as a query with entries that are already normal
            r, e, r2, e2 = self._both(lambda: proxy | dict(norm_pairs), lambda: m | dict(norm_pairs))
            cmpd(what, dict(r) if r is not None else r, e, r2, e2)
        elif what == "pop":
            cmpd(what, *self._both(lambda: proxy.pop(nk), lambda: m.pop(nk)))
        elif what == "pop_default":
            cmpd(what, *self._both(lambda: proxy.pop(nk, "dflt"), lambda: m.pop(nk, "dflt")))
        elif what == "popitem":
            cmpd(what, *self._both(proxy.popitem, m.popitem))
        elif what == "delitem":
            cmpd(what, *self._both(lambda: proxy.__delitem__(nk), lambda: m.__delitem__(nk)))
        elif what == "clear":
            cmpd(what, *self._both(proxy.clear, m.clear))
        elif what == "copy":
            r, e, r2, e2 = self._both(proxy.copy, m.copy)
            cmpd(what, r, e, r2, e2, check_ret=False)
            if e is None:
                rec.check()
                if type(r).__name__ != "DictProxy":
                    rec.fail("C17/typed", "C17/result-not-typed/dict-copy/%s" % type(r).__name__, "dict copy() returned a %s" % type(r).__name__)
                if r is proxy:
                    rec.fail("C17/identity", "C17/copy-returns-same-object", "copy() returned the dict itself")
                if canon(list(dict.items(r))) != canon(list(r2.items())):
                    rec.fail("C17/contents", "C17/result-contents-differ/dict-copy", "copy() gave %r" % (canon(list(dict.items(r))),))
        elif what == "get":
            cmpd(what, *self._both(lambda: (proxy.get(nk), proxy.get(nk, 7)), lambda: (m.get(nk), m.get(nk, 7))))
        elif what == "contains":
            cmpd(what, *self._both(lambda: (nk in proxy, len(proxy)), lambda: (nk in m, len(m))))
        elif what == "keys":
            cmpd(what, *self._both(lambda: (list(proxy.keys()), list(proxy.values()), list(proxy.items()), list(proxy)),
                                   lambda: (list(m.keys()), list(m.values()), list(m.items()), list(m))))
        elif what == "eq":
            cmpd(what, *self._both(lambda: (proxy == dict(m), dict(m) == proxy, bool(proxy)), lambda: (True, True, bool(m))))

    def valid_default(self, st, d):
        return None


SCENARIO = ContainerScenario()
