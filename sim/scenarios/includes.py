"""C18 -- including files is a deep merge in the including scope, included values win.

The scheduler writes a main document and include documents (overlapping and disjoint keys at several
depths, map/non-map conflicts, relative / absolute / ~ paths, chains in one scope) to SimFS and loads
the main document; a twin configuration receives load_tree(reference merge) where the reference merge
is an independent implementation applied in the documented order.  Include-file faults (missing, a
directory, unreadable, garbage, other format, torn, open error) must make the load fail and leave the
configuration unchanged.
"""
import copy

import cincoconfig as cc

from .. import ops, snapshot, values
from ..codec import canon
from ..engine import Scenario, stream
from ..world import SeamGap

FILES = ["inc1", "inc2", "sub/inc3", "/inc/abs1", "/home/sim/inc_home", "inc4", "./inc5", "sub/../inc6", ""]
STARTDIRS = [None, "/data", "/inc", "rel", "~"]
KEYS = ["a", "b", "c", "d", "m", "n"]
LEAVES = [1, 2, "x", "y", None, True, 2.5, [1, 2], [], "", 0, ["z"]]


class St:
    pass


def ref_merge(base, child):
    out = dict(base)
    for k, v in child.items():
        if k in base and isinstance(base[k], dict) and isinstance(v, dict):
            out[k] = ref_merge(base[k], v)
        else:
            out[k] = copy.deepcopy(v)
    return out


def sort_rows(s):
    """Key order of dynamic fields follows the order of the document (YAML sorts keys): not part of the claim."""
    if isinstance(s, tuple) and s and s[0] == "cfg":
        return (s[0], s[1], s[2], sorted(((k, sort_rows(v), f) for k, v, f in s[3]), key=lambda r: repr(r[0])))
    if isinstance(s, tuple) and len(s) == 2 and isinstance(s[1], list):
        return (s[0], [sort_rows(x) for x in s[1]])
    return s


def gen_tree(rng, depth=0):
    t = {}
    for k in rng.sample(KEYS, rng.randint(0, 4)):
        if depth < 2 and rng.random() < 0.4:
            t[k] = gen_tree(rng, depth + 1)
        else:
            t[k] = rng.choice(LEAVES)
    return t


def same_size_variant(tree):
    """A copy of the tree with one leaf changed to a value whose serialised form has the same length, or None."""
    t = copy.deepcopy(tree)

    def walk(node):
        items = node.items() if isinstance(node, dict) else enumerate(node)
        for k, v in list(items):
            if isinstance(v, bool):
                continue
            if isinstance(v, int) and 0 <= v <= 9:
                node[k] = (v + 1) % 10 if v != 9 else 8
                return True
            if isinstance(v, str) and v and v[-1].isalpha() and v[-1].isascii():
                node[k] = v[:-1] + ("b" if v[-1] != "b" else "c")
                return True
            if isinstance(v, (dict, list)) and walk(v):
                return True
        return False

    return t if walk(t) else None


def canon_unordered(t):
    """Type-exact canonical form that ignores the order of map keys."""
    if isinstance(t, dict):
        return ("map", sorted(((canon(k), canon_unordered(v)) for k, v in t.items()), key=repr))
    if isinstance(t, (list, tuple)):
        return (type(t).__name__, [canon_unordered(x) for x in t])
    return canon(t)


class NoClaim(Exception):
    """The statement does not decide this load (an included document that parses but is not a map; sibling includes of
    one scope that overlap or name each other, whose relative precedence is not stated)."""


class IncludeScenario(Scenario):
    name = "includes"
    max_ops = 12

    def __init__(self, prop="C18"):
        self.prop = prop

    def header(self, seed, avoid):
        rng = stream(seed, "swarm")
        # scopes: root plus nested schemas; each scope has 0-2 include fields
        def scope(depth):
            s = {"includes": [{"key": "inc%d" % i, "startdir": rng.choice(STARTDIRS)} for i in range(rng.choice([0, 1, 1, 2]))], "subs": {},
                 "subs_first": rng.random() < 0.5}
            if depth < 2:
                for k in rng.sample(["s1", "s2"], rng.randint(0, 2)):
                    s["subs"][k] = scope(depth + 1)
            return s
        root = scope(0)
        if not root["includes"] and not any(x["includes"] for x in root["subs"].values()):
            root["includes"].append({"key": "inc0", "startdir": rng.choice(STARTDIRS)})
        return {"root": root, "max_ops": rng.randint(3, self.max_ops),
                "p_fault": rng.choice([0.0, 0.2, 0.4]) if self.prop == "C18" else rng.choice([0.4, 0.6])}

    def build(self, st):
        def mk(s):
            sch = cc.Schema(dynamic=True)
            return sch
        root = cc.Schema(dynamic=True)

        def fill(sch, s):
            def incs():
                for inc in s["includes"]:
                    sch[inc["key"]] = cc.IncludeField(startdir=inc["startdir"])

            def subs():
                for k, sub in s["subs"].items():
                    child = cc.Schema(dynamic=True)
                    sch[k] = child
                    fill(child, sub)
            # the declaration order of include fields and nested schemas is free; the documented processing
            # order (all includes of a scope, then its nested scopes) does not depend on it
            if s.get("subs_first"):
                subs()
                incs()
            else:
                incs()
                subs()
        fill(root, st.h["root"])
        del mk
        return root

    def start(self, header, world, rec):
        st = St()
        st.world = world
        st.h = header
        for d in ("/data", "/data/sub", "/inc", "/inc/sub", "/work/rel", "/work/rel/sub", "/work/sub", "/home/sim/sub", "/data/adir"):
            world.dirs.add(d)
        st.root = copy.deepcopy(header["root"])
        st.schema = self.build(st)
        st.cfg = st.schema()
        st.twin_schema = self.build(st)
        return st

    # ------------------------------------------------------------------ schemas are built dynamically: they may grow
    def scopes(self, s, path=()):
        yield path, s
        for k, sub in s["subs"].items():
            yield from self.scopes(sub, path + (k,))

    def gen_grow(self, st, rng):
        cands = [(p, s) for p, s in self.scopes(st.root) if len(p) < 3]
        path, s = rng.choice(cands)
        inc = {"key": "inc%d" % (len(s["includes"]) + 7), "startdir": rng.choice(STARTDIRS)}
        free = [k for k in ("s3", "s4") if k not in s["subs"]]
        if free and rng.random() < 0.7:
            return {"op": "grow", "at": list(path), "sub": rng.choice(free), "inc": dict(inc, key="inc0"), "how": rng.choice(["attr", "item", "schema-first"])}
        return {"op": "grow", "at": list(path), "sub": None, "inc": inc, "how": rng.choice(["attr", "item"])}

    def do_grow(self, st, op, rec):
        """A sub-schema with an include field, or one more include field, is declared after the schema has been used."""
        s = st.root
        for k in op["at"]:
            s = s["subs"].get(k) if s else None
        if s is None or (op["sub"] and op["sub"] in s["subs"]) or (not op["sub"] and any(i["key"] == op["inc"]["key"] for i in s["includes"])):
            rec.log("grow", "skip")
            return
        for root in (st.schema, st.twin_schema):
            sch = root
            for k in op["at"]:
                sch = sch._fields[k]
            fld = cc.IncludeField(startdir=op["inc"]["startdir"])
            if op["sub"] is None:
                if op["how"] == "attr":
                    setattr(sch, op["inc"]["key"], fld)
                else:
                    sch[op["inc"]["key"]] = fld
            elif op["how"] == "attr":
                setattr(getattr(sch, op["sub"]), op["inc"]["key"], fld)      # the sub-schema comes into being on first access
                sch._fields[op["sub"]]._dynamic = True
            elif op["how"] == "item":
                sch[op["sub"] + "." + op["inc"]["key"]] = fld
                sch._fields[op["sub"]]._dynamic = True
            else:
                child = cc.Schema(dynamic=True)
                sch[op["sub"]] = child
                child[op["inc"]["key"]] = fld
        if op["sub"] is None:
            s["includes"].append(dict(op["inc"]))
        else:
            s["subs"][op["sub"]] = {"includes": [dict(op["inc"])], "subs": {}, "subs_first": False}
        st.cfg = st.schema()
        st.serials = None
        rec.log("grow", op["at"], op["sub"], op["inc"]["key"], op["how"])
        rec.probe("schema-grown:" + ("sub-schema" if op["sub"] else "include-field"))

    # ------------------------------------------------------------------ path model
    def resolve(self, st, inc, value):
        w = st.world
        if not isinstance(value, str) or not value:
            return None
        v = value
        if not v.startswith("/") and inc["startdir"]:
            v = w.abspath(w.expanduser(inc["startdir"].rstrip("/") + "/" + v))
        return w.abspath(w.expanduser(v))

    def gen_op(self, st, rng):
        r = rng.random()
        if r < 0.15:
            return {"op": "combine", "base": gen_tree(rng), "child": gen_tree(rng)}
        if r < 0.25:
            return {"op": "chdir", "to": rng.choice(["/work", "/data", "/inc", "/work/rel"])}
        if r < 0.33 and getattr(st, "loads", 0):
            return self.gen_grow(st, rng)
        last = getattr(st, "last_load", None)
        if last is not None and last["files"] and r < 0.45:
            # the same documents again, one included file rewritten in place with content of the same size
            files = copy.deepcopy(last["files"])
            for victim in rng.sample(sorted(files), len(files)):
                alt = same_size_variant(files[victim])
                if alt is not None:
                    files[victim] = alt
                    return {"op": "load", "fmt": last["fmt"], "main": copy.deepcopy(last["main"]), "files": files, "opts": dict(last["opts"]),
                            "rewrite": victim}
        fmt = rng.choice(ops.FORMATS)
        files = {}

        def fill(s, tree, depth):
            for inc in s["includes"]:
                if rng.random() < 0.75:
                    name = rng.choice(FILES)
                    tree[inc["key"]] = name
                    p = self.resolve(st, inc, name)
                    if p and p not in files:
                        child = gen_tree(rng)
                        for sk, ssub in s["subs"].items():
                            if rng.random() < 0.4:
                                sub_t = child.get(sk) if isinstance(child.get(sk), dict) else {}
                                for inc3 in ssub["includes"]:
                                    if rng.random() < 0.6:
                                        sub_t[inc3["key"]] = rng.choice(FILES)
                                sub_t.setdefault(rng.choice(KEYS), rng.choice(LEAVES))
                                child[sk] = sub_t
                        # an included file may itself name includes of this scope or of nested scopes
                        if rng.random() < 0.3:
                            for inc2 in s["includes"]:
                                if inc2 is not inc and rng.random() < 0.5:
                                    child[inc2["key"]] = rng.choice(FILES)
                        files[p] = child
            for k, sub in s["subs"].items():
                if rng.random() < 0.7:
                    t = tree.setdefault(k, {}) if isinstance(tree.get(k, {}), dict) else None
                    if t is not None:
                        fill(sub, t, depth + 1)

        main = gen_tree(rng)
        fill(st.root, main, 0)
        # files referenced from included content (chains, nested scopes named by an included file): walk the
        # documents the way the documented processing order does and give (most of) the missing files content
        def missing(s, tree, acc):
            tree = dict(tree)
            for inc in s["includes"]:
                fn = tree.get(inc["key"])
                p = self.resolve(st, inc, fn) if isinstance(fn, str) else None
                if p is None:
                    continue
                if p not in files:
                    acc.append(p)
                    continue
                tree = ref_merge(tree, files[p])
            for k, sub in s["subs"].items():
                if isinstance(tree.get(k), dict) and tree[k]:
                    missing(sub, tree[k], acc)

        for _ in range(3):
            acc = []
            missing(st.root, main, acc)
            if not acc:
                break
            for p in acc:
                if p not in files and rng.random() < 0.85:
                    files[p] = gen_tree(rng)
        opts = {}
        if fmt == "xml" and rng.random() < 0.4:
            opts["root_tag"] = rng.choice(["app", "settings"])
        if fmt == "yaml" and rng.random() < 0.4:
            opts["root_key"] = rng.choice(["CONFIG", "root"])
        op = {"op": "load", "fmt": fmt, "main": main, "files": files, "opts": opts}
        if files and rng.random() < st.h["p_fault"]:
            victim = rng.choice(sorted(files))
            op["fault"] = {"path": victim, "how": rng.choice(["missing", "directory", "unreadable", "garbage", "other-format", "torn", "open-err"]),
                           "n": rng.randrange(1, 50)}
        return op

    def _call(self, fn):
        try:
            return fn(), None
        except SeamGap:
            raise
        except Exception as exc:  # noqa: BLE001
            return None, exc

    def apply(self, st, op, rec):
        if op["op"] == "chdir":
            # the process changes its working directory after the schema was defined: relative start directories
            # and relative include paths resolve against the directory current at load time
            st.world.cwd = op["to"]
            for d in ("rel", "rel/sub", "sub"):
                st.world.dirs.add(st.world.abspath(d))
            rec.log("chdir", op["to"])
            rec.probe("chdir")
            return
        if op["op"] == "combine":
            self.do_combine(st, op, rec)
        elif op["op"] == "grow":
            self.do_grow(st, op, rec)
        else:
            st.loads = getattr(st, "loads", 0) + 1
            if op.get("rewrite"):
                rec.probe("include-rewritten-same-size")
            self.do_load(st, op, rec)
            st.last_load = {"fmt": op["fmt"], "main": op["main"], "files": op["files"], "opts": op.get("opts", {})}

    def do_combine(self, st, op, rec):
        fld = cc.IncludeField()
        base, child = copy.deepcopy(op["base"]), copy.deepcopy(op["child"])
        b0, c0 = copy.deepcopy(base), copy.deepcopy(child)
        out, err = self._call(lambda: fld.combine_trees(base, child))
        rec.log("combine", canon(b0), canon(c0), type(err).__name__ if err else "ok")
        rec.relevant += 1
        rec.check()
        if err is not None:
            rec.fail("C18/merge", "C18/combine-raises/%s" % type(err).__name__, "combine_trees raised %r" % (err,))
        if base != b0 or child != c0:
            rec.fail("C18/merge", "C18/combine-mutates-input/%s" % ("base" if base != b0 else "child"), "combine_trees changed its %s argument" % ("base" if base != b0 else "child"))
        want = ref_merge(b0, c0)
        if out != want or canon_unordered(out) != canon_unordered(want):     # key order is not part of the statement
            rec.fail("C18/merge", "C18/combine-differs-from-deep-merge", "combine_trees(%r, %r) = %r, deep merge gives %r" % (b0, c0, out, want))
        rec.probe("combine")

    def mutate_all(self, t):
        if isinstance(t, dict):
            for k in list(t):
                self.mutate_all(t[k])
            t["__x"] = 1
        elif isinstance(t, list):
            t.append("__x")

    def ref_process(self, st, s, tree, fmt, trace):
        for inc in s["includes"]:
            fn = tree.get(inc["key"])
            if fn is None:
                continue
            p = self.resolve(st, inc, fn)
            if p is None or p not in st.world.files:
                raise LookupError("include %r -> %r is not an existing file" % (fn, p))
            if p in st.world.unreadable or p == getattr(st, "open_err_path", None):
                raise LookupError("unreadable include")
            child = ops.parse_doc(fmt, st.world.peek(p), st.opts) if fmt != "xml" else self.xml_tree(st.world.peek(p), st.opts)
            if not isinstance(child, dict):
                raise NoClaim("include is not a map")
            used = [i for i in s["includes"] if tree.get(i["key"]) is not None]
            if len(used) > 1:
                # several includes of one scope in play: which of them wins on a key they share (or whether one may redirect
                # another) is not stated -- claimed only when they are independent of each other
                mine = set(child) - {inc["key"]}
                for other in used:
                    if other is inc:
                        continue
                    if other["key"] in child:
                        raise NoClaim("an included file names a sibling include")
                    q = self.resolve(st, other, tree.get(other["key"]))
                    if q and q in st.world.files:
                        try:
                            oc = ops.parse_doc(fmt, st.world.peek(q), st.opts) if fmt != "xml" else self.xml_tree(st.world.peek(q), st.opts)
                        except Exception:  # noqa: BLE001
                            oc = None
                        if isinstance(oc, dict) and (mine & (set(oc) - {other["key"]}) or inc["key"] in oc):
                            raise NoClaim("sibling includes overlap")
            trace.append(p)
            tree = ref_merge(tree, child)
        for k, sub in s["subs"].items():
            if tree.get(k) and isinstance(tree[k], dict):
                tree[k] = self.ref_process(st, sub, tree[k], fmt, trace)
        return tree

    def xml_tree(self, content, opts=None):
        from cincoconfig.formats.xml import XmlConfigFormat
        return XmlConfigFormat(**(opts or {})).loads(None, content)

    def do_load(self, st, op, rec):
        w = st.world
        fmt = op["fmt"]
        main = op["main"]
        trees = [main] + list(op["files"].values())
        if not all(ops.in_format_domain(fmt, t) for t in trees):
            rec.log("load", "out-of-domain")
            return
        opts = op.get("opts", {})
        st.opts = opts
        # include paths were resolved when the operation was generated; with a changed working directory the
        # relative ones resolve elsewhere, so the files are (re)located by resolving again now
        for p, t in op["files"].items():
            w.poke(p, ops.write_doc(fmt, t, opts))
        w.poke("/data/main.cfg", ops.write_doc(fmt, main, opts))
        fault = op.get("fault")
        faulted = False
        if fault and fault["path"] in op["files"]:
            p, how = fault["path"], fault["how"]
            faulted = True
            if how == "missing":
                w.unlink_quiet(p)
            elif how == "directory":
                w.unlink_quiet(p)
                w.dirs.add(p)
            elif how == "unreadable":
                w.unreadable.add(p)
            elif how == "garbage":
                w.poke(p, b"\xff\xfe{[<garbage" if fmt != "pickle" else b"")
            elif how == "other-format":
                other = "json" if fmt != "json" else "xml"
                w.poke(p, ops.write_doc(other, op["files"][p] if ops.in_format_domain(other, op["files"][p]) else {}))
            elif how == "wrong-options" and opts:
                w.poke(p, ops.write_doc(fmt, op["files"][p]))      # written without the options the load is given
            elif how == "torn":
                doc = w.peek(p)
                w.poke(p, doc[: fault["n"] % max(1, len(doc))])
            elif how == "open-err":
                st.open_err_path = p
                w.armed.append({"seam": "open:r", "nth": 1, "path": p, "errno": "EIO", "kind": "open-err"})
        # C18 judges each load on a fresh configuration; C06 keeps one configuration alive so that failing
        # loads hit arbitrary reachable states
        cfg = st.schema() if self.prop == "C18" else st.cfg
        serials = getattr(st, "serials", None)
        if serials is None:
            serials = st.serials = snapshot.Serials()
        s0 = snapshot.snap(cfg, serials)
        if opts:
            _, err = self._call(lambda: cfg.loads(w.peek("/data/main.cfg"), fmt, **opts))
        else:
            _, err = self._call(lambda: cfg.load("/data/main.cfg", fmt))
        if faulted and fault["how"] in ("open-err", "unreadable") and not any(e[2] == "open" and e[3] == fault["path"] for e in w.step_journal()):
            # a fault that only shows when the file is opened, and the library did not open it during this load (it is
            # not named by what was merged, or its unchanged content was already known): nothing to observe, no claim
            st.open_err_path = None
            w.unreadable.discard(fault["path"])
            faulted = False
            rec.probe("include-fault-not-observed:" + fault["how"])
        # reference
        trace = []
        try:
            want = self.ref_process(st, st.root, copy.deepcopy(main), fmt, trace)
            ref_err = None
        except SeamGap:
            raise
        except NoClaim as exc:
            rec.log("load", fmt, "no-claim", str(exc))
            rec.probe("include-load-not-judged:" + str(exc).replace(" ", "-"))
            st.open_err_path = None
            if fault:
                w.unreadable.discard(fault["path"])
                w.dirs.discard(fault["path"])
            return
        except Exception as exc:  # noqa: BLE001  (reference could not resolve/parse an include)
            want, ref_err = None, exc
        if self.prop == "C06":
            rec.log("load", fmt, fault and fault["how"], type(err).__name__ if err else "ok")
            rec.kind(fmt + (":" + fault["how"] if faulted else ""))
            if faulted:
                w.fired.append((w.step, {"kind": "include-" + fault["how"], "seam": "include", "errno": ""}))
            st.open_err_path = None
            if fault:
                w.unreadable.discard(fault["path"])
                w.dirs.discard(fault["path"])
            if ref_err is not None:
                rec.relevant += 1
                rec.check()
                rec.probe("include-unusable:" + (fault["how"] if faulted else "natural"))
                s1 = snapshot.snap(cfg, serials)
                if err is not None and s1 != s0:
                    d = snapshot.diff(s0, s1)
                    rec.fail("C06/unchanged", "C06/changed-by-rejected/load-include-unresolvable/%s" % (fault["how"] if faulted else "natural"),
                             "a load whose include cannot be resolved changed the configuration at %s: %r -> %r" % (d[0], d[1], d[2]))
            return
        twin = st.twin_schema()
        terr = None
        if want is not None:
            _, terr = self._call(lambda: twin.load_tree(copy.deepcopy(want)))
        rec.log("load", fmt, len(op["files"]), fault and fault["how"], type(err).__name__ if err else "ok", type(ref_err).__name__ if ref_err else "ok")
        rec.kind(fmt + (":" + fault["how"] if faulted else ""))
        rec.relevant += 1
        rec.check()
        if faulted:
            w.fired.append((w.step, {"kind": "include-" + fault["how"], "seam": "include", "errno": ""}))
        # cleanup of fault state
        st.open_err_path = None
        if fault:
            w.unreadable.discard(fault["path"])
            w.dirs.discard(fault["path"])
        used = bool(trace) or ref_err is not None
        if ref_err is not None:
            # an include that cannot be resolved / read / parsed: the load must fail and change nothing
            rec.probe("include-unusable:" + (fault["how"] if faulted else "natural"))
            if err is None:
                rec.fail("C18/missing", "C18/unusable-include-accepted/%s" % (fault["how"] if faulted else "natural"),
                         "the load succeeded although an include could not be used: %s" % (ref_err,))
            if snapshot.snap(cfg, serials) != s0:
                rec.fail("C18/missing", "C18/failed-include-load-changed-configuration", "a load that failed on its include changed the configuration")
            return
        if (err is None) != (terr is None):
            rec.fail("C18/equivalence", "C18/outcome-differs-from-merged-tree/%s" % ("load-raises" if err else "merged-tree-raises"),
                     "loading the main document %s, loading the reference-merged tree %s"
                     % ("raised %r" % (err,) if err else "succeeded", "raised %r" % (terr,) if terr else "succeeded"))
        if err is None:
            a, b = sort_rows(snapshot.snap(cfg, None)), sort_rows(snapshot.snap(twin, None))
            if a != b:
                d = snapshot.diff(b, a)
                rec.fail("C18/equivalence", "C18/differs-from-merged-tree/%s" % ("nested-scope" if "." in d[0] else "root-scope"),
                         "after loading with includes %s holds %r; loading the reference-merged tree gives %r" % (d[0], d[2], d[1]))
            rec.probe("include-merged:%d" % min(len(trace), 3))
            if any("." in p for p in self.include_paths(st.root, main, "")):
                rec.probe("include-in-nested-scope")

    def include_paths(self, s, tree, prefix):
        out = []
        for inc in s["includes"]:
            if isinstance(tree, dict) and tree.get(inc["key"]) is not None:
                out.append(prefix + inc["key"])
        for k, sub in s["subs"].items():
            if isinstance(tree, dict) and isinstance(tree.get(k), dict):
                out += self.include_paths(sub, tree[k], prefix + k + ".")
        return out


SCENARIO = IncludeScenario("C18")
C06 = IncludeScenario("C06")
