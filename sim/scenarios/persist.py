"""The `persist` scenario: sessions that build a valid state, save it, restart, load it in a fresh
session, mutate, save in another format ... on the simulated disk, with key files generated in-run.

Serves C02 (save/re-load reproduces the configuration in every format; the tree is plain data),
C03 (secrets only encrypted; decrypt with the key file of the nearest ancestor that names one; no
other key file touched) and C10 (a sensitive-value mask hides every sensitive value).
"""
import base64
import re

from cincoconfig.core import Config

from .. import model, ops, refcrypto, schema, snapshot, values
from ..codec import canon, dec, enc
from ..engine import stream
from ..world import SeamGap, World
from .state import St, StateScenario

KEYFILES = ["/keys/root.key", "/keys/sub.key", "/keys/type.key", "~/.altkey"]
MASKS = ["", "*", "#", "XX", "<hidden>", "•"]


def _keybytes(tag, shape="plain"):
    import hashlib
    d = hashlib.sha256(("persist-key:%s" % tag).encode()).digest()
    if shape == "ws":
        return b"\t" + d[1:31] + b"\r\n"[:1]      # a legal 32-byte key that begins and ends with white space
    if shape == "nul":
        return b"\x00" + d[1:31] + b"\x00"
    return d


def live_plain_tree(value):
    """The values a configuration holds, as a plain tree for the format-domain judgement: binary and hashed values
    (always written as base64 text) become placeholders, scalar map keys become text as in every format."""
    if isinstance(value, Config):
        return {k if isinstance(k, str) else repr(k): live_plain_tree(v) for k, v in value}
    if type(value).__name__ == "DigestValue":
        return {"salt": "", "digest": ""}
    if isinstance(value, (bytes, bytearray)):
        return ""
    if type(value) is tuple:
        return tuple(live_plain_tree(x) for x in value)
    if isinstance(value, (list, tuple)):
        return [live_plain_tree(x) for x in (list.__iter__(value) if isinstance(value, list) else value)]
    if isinstance(value, dict):
        out = {}
        for i, (k, v) in enumerate(dict.items(value)):
            if isinstance(k, (int, float)) and not isinstance(k, bool):
                k = str(k)
            elif isinstance(k, (bytes, bytearray)):
                k = "=bin%d" % i            # binary keys are written as base64 or hex text: never an XML name, fine elsewhere
            out[k] = live_plain_tree(v)
        return out
    return value


def tcanon(t):
    """Order-insensitive canonical form of a plain tree (YAML sorts keys when dumping)."""
    if isinstance(t, dict):
        return ("map", sorted(((repr(k), tcanon(v)) for k, v in t.items())))
    if isinstance(t, list):
        return ("seq", [tcanon(x) for x in t])
    return canon(t)


def plain_only(tree, path=""):
    """First offence against 'plain data only' in a tree, or None."""
    if tree is None or type(tree) in (bool, int, float, str):
        return None
    if type(tree) is list:
        for i, x in enumerate(tree):
            r = plain_only(x, "%s[%d]" % (path, i))
            if r:
                return r
        return None
    if type(tree) is dict:
        for k, x in tree.items():
            if type(k) is not str:
                return "%s: key %r of type %s" % (path, k, type(k).__name__)
            r = plain_only(x, (path + "." if path else "") + k)
            if r:
                return r
        return None
    return "%s: value of type %s" % (path or "<root>", type(tree).__name__)


class PersistScenario(StateScenario):
    name = "persist"
    max_ops = 24

    # =========================================================================== header
    def gen_cfg(self, rng):
        over = {"p_validator": 0.0, "p_required": rng.choice([0.0, 0.1]), "filename_fs": False,
                "virtual": rng.random() < 0.5, "key_files": [None, None] + KEYFILES[2:3]}
        if self.prop in ("C03", "C10"):
            over["kinds"] = ["secure", "secure", "string", "int", "list", "bool", "bytes", "challenge"] if self.prop == "C03" else \
                ["secure", "string", "int", "float", "bool", "list", "dict", "bytes", "url", "challenge", "any", "ipv4addr"]
            over["depth"] = rng.choice([1, 2, 2, 3])
            over["p_list_schema"] = rng.choice([0.15, 0.3, 0.5])
            over["p_configtype"] = rng.choice([0.1, 0.25])
            over["p_sub"] = rng.choice([0.3, 0.45])
        if self.prop == "C10":
            over["p_sensitive"] = rng.choice([0.3, 0.5, 0.8])
        return schema.GenCfg(rng, **over)

    def weights(self, rng):
        w = {"set": 5, "assign_sub": 1.5, "load_tree": 1, "lop": 2.5, "dop": 1.5, "dyn": 0.5, "reset": 0.5,
             "save": 3, "restart_load": 2.5, "tree_check": 1}
        if self.prop == "C03":
            w.update({"set_keyfile": 2, "save": 4, "restart_load": 3, "adopt": 1.5, "key_event": 1.2})
        if self.prop == "C10":
            w.update({"mask": 6, "save": 0.5, "restart_load": 0.5, "tree_check": 0, "evolve": 0.6})
        return w

    def header(self, seed, avoid):
        rng = stream(seed, "swarm")
        w = World(seed)
        values.seed_world(w)
        ctx = values.Ctx(w, plain=True)
        g = self.gen_cfg(rng)
        srng = stream(seed, "schema")
        sd = schema.gen_header_schema(srng, g, w)
        values.add_defaults(srng, sd, g, ctx)
        root_key = rng.choice([None, KEYFILES[0], KEYFILES[0], KEYFILES[3]])
        existing = {k: rng.random() < 0.5 for k in KEYFILES + ["~/.cincokey"]}
        return {"sd": sd, "ncfg": 1, "weights": self.weights(rng), "p_invalid": 0.0, "p_fault": 0.0,
                "max_ops": rng.randint(6, self.max_ops), "root_key": root_key, "existing_keys": existing,
                "key_shape": stream(seed, "key-shape").choice(["plain", "plain", "plain", "ws", "nul"]),
                "formats": rng.sample(ops.FORMATS, rng.randint(1, 5)), "avoid": sorted(avoid)}

    # =========================================================================== session
    def start(self, header, world, rec):
        st = St()
        st.world = world
        st.h = header
        import copy
        st.sd = copy.deepcopy(header["sd"])
        values.seed_world(world)
        st.ctx = values.Ctx(world, plain=True)
        for k, present in header["existing_keys"].items():
            if present:
                world.poke(world.expanduser(k), _keybytes(k, header.get("key_shape", "plain")))
        st.docs = []
        st.session = 0
        st.keyset = {}     # serial of a config object -> filename explicitly set on it (None = cleared)
        self.new_session(st, rec)
        return st

    def new_session(self, st, rec):
        from .. import seams
        seams.reset_process_state()
        st.B = schema.build(st.sd)
        st.serials = snapshot.Serials()
        st.keyset = {}
        st.layout = {}     # path -> filename assigned with set_keyfile in this session
        kw = {}
        if st.h.get("root_key"):
            kw["key_filename"] = st.h["root_key"]
        st.cfgs = [st.B.root(**kw)]
        st.other = None
        st.session += 1

    def other_tree(self, st):
        """A second configuration of the same schema with another root key file (a different application
        instance, a template): sub-configurations taken from it are assigned into the main tree."""
        if st.other is None:
            st.other = st.B.root(key_filename=KEYFILES[1])
        return st.other

    def _want(self, st, rng):
        return "valid"

    # =========================================================================== key-file model
    def key_for(self, st, cfg, owner_path, owners, nodes):
        """Model: the key file of the nearest ancestor configuration (including itself) that names one,
        else the default.  `owners`: path -> config object, `nodes`: path -> field node ('' = root)."""
        p = owner_path
        while True:
            obj = owners.get(p)
            name = None
            if obj is not None:
                ser = st.serials.of(obj)
                if ser in st.keyset:
                    name = st.keyset[ser]
                elif p == "":
                    name = st.h.get("root_key")
                else:
                    node = nodes.get(p)
                    if node is not None and node["kind"] == "configtype":
                        name = st.sd["types"][node["type"]].get("key_filename")
            if name:
                return name
            if p == "":
                return "~/.cincokey"
            # parent path: strip the last '.key' or '[i]' (a list item's parent is the config owning the list)
            if p.endswith("]"):
                p = p[: p.rindex("[")]
                p = p[: p.rindex(".")] if "." in p else ""
            else:
                p = p[: p.rindex(".")] if "." in p else ""
                # 'a.items[2]' style remains a valid owner path

    def cfg_nodes(self, st, cfg):
        """path -> (config object, field node that holds it) for every configuration in the live tree."""
        owners, nodes = {}, {}
        # walk reports schema nodes for configs; we need the *field* nodes (configtype or schema) too
        def rec_(path, snode, c):
            owners[path] = c

        schema.walk(st.sd, cfg, lambda *a: None, visit_cfg=rec_)
        tg, cfgpaths, _ = ops.targets(st.sd, cfg)
        for t in tg:
            if schema.is_cfg_node(t.node):
                nodes[t.path] = t.node
            elif t.node["kind"] == "list" and t.node.get("item") and schema.is_cfg_node(t.node["item"]):
                for i in range(len(t.value) if isinstance(t.value, list) else 0):
                    nodes["%s[%d]" % (t.path, i)] = t.node["item"]
        return owners, nodes

    def secrets_in(self, st, cfg):
        """[(path, owner path, plaintext, node)] for every secure field holding a non-empty str."""
        out = []

        def visit(path, node, value):
            if node["kind"] == "secure" and isinstance(value, str) and value:
                out.append((path, ops.split_last(path)[0], value, node))
            elif node["kind"] == "list" and node.get("item") and node["item"]["kind"] == "secure" and isinstance(value, list):
                for i, x in enumerate(list.__iter__(value)):
                    if isinstance(x, str) and x:
                        out.append(("%s[%d]" % (path, i), ops.split_last(path)[0], x, node["item"]))
            elif node["kind"] == "dict" and node.get("vf") and node["vf"]["kind"] == "secure" and isinstance(value, dict):
                for k, x in dict.items(value):
                    if isinstance(x, str) and x:
                        out.append(("%s{%s}" % (path, k), ops.split_last(path)[0], x, node["vf"]))

        schema.walk(st.sd, cfg, visit)
        return out

    # =========================================================================== persistent view
    def view(self, st, cfg):
        """path -> canonical value of every persistent field, with the two normalisations C02 allows."""
        out = {}

        def visit(path, node, value):
            k = node["kind"]
            if k in ("virtual", "method") or value is schema.MISSING:
                return
            if schema.is_cfg_node(node):
                if not isinstance(value, Config):
                    out[path] = ("not-a-config", canon(value))
                return
            if k == "list" and node.get("item") and schema.is_cfg_node(node["item"]):
                out[path + "#len"] = len(value) if isinstance(value, list) else (0 if value is None else ("?", canon(value)))
                return
            if k == "list" and node.get("item") and node["item"]["kind"] != "any" and value is None:
                out[path] = ("list:ListProxy", [])
                return
            if k == "dict" and (node.get("kf") or node.get("vf")) and value is None:
                out[path] = ("dict:DictProxy", [])
                return
            if k == "secure" and value == "":
                out[path] = None
                return
            if k == "list" and node.get("item") and node["item"]["kind"] == "secure" and isinstance(value, list):
                out[path] = ("list:" + type(value).__name__, [None if x == "" else canon(x) for x in list.__iter__(value)])
                return
            if k == "dict" and (node.get("vf") or {}).get("kind") == "secure" and isinstance(value, dict):
                tag, items = snapshot.snap_value(value, None, False)
                out[path] = (tag, [(a, None if b == "" else b) for a, b in items])     # an empty secret comes back unset
                return
            out[path] = snapshot.snap_value(value, None, False)

        schema.walk(st.sd, cfg, visit)
        return out

    # =========================================================================== generation
    def gen_op(self, st, rng):
        op = super().gen_op(st, rng)
        op["cfg"] = 0
        return op

    def gen_set(self, st, rng, cfg, tgts, cfgpaths, owners):
        op = super().gen_set(st, rng, cfg, tgts, cfgpaths, owners)
        if op and rng.random() < 0.12:
            # explicitly clearing a field is a valid state too (None is accepted unless the field is required)
            t = next((t for t in tgts if t.path == op["path"]), None)
            if t is not None and not schema.is_cfg_node(t.node) and not t.node.get("o", {}).get("required") and t.node["kind"] not in ("virtual", "method"):
                op["v"] = None
        return op

    def gen_save(self, st, rng, cfg, tgts, cfgpaths, owners):
        fmt = rng.choice(st.h["formats"])
        opts = {}
        if fmt == "yaml" and rng.random() < 0.3:
            opts["root_key"] = rng.choice(["CONFIG", "root"])
        if fmt == "xml" and rng.random() < 0.3:
            opts["root_tag"] = rng.choice(["cfg", "settings"])
        if fmt == "json" and rng.random() < 0.4:
            opts["pretty"] = False
        op = {"op": "save", "fmt": fmt, "opts": opts, "file": rng.choice(["/data/c1.cfg", "/data/c2.cfg", "~/c3.cfg", "out.cfg"]),
              "virtual": rng.random() < 0.2}
        if self.prop == "C03" and rng.random() < 0.08:
            keys = sorted(p for p in st.world.files if p.startswith("/keys/") or p.endswith(".cincokey"))
            if keys:
                # the key file exists but cannot be opened this once
                op["faults"] = [{"seam": "open:r", "nth": 1, "path": rng.choice(keys), "errno": rng.choice(["EIO", "EACCES", "EMFILE"]), "kind": "open-err"}]
        elif self.prop in ("C02", "C03") and rng.random() < 0.3:
            # a key file that does not exist yet cannot be created this once (the save fails; a later one must work)
            w = st.world
            owners, nodes = self.cfg_nodes(st, cfg)
            want = sorted({w.abspath(w.expanduser(self.key_for(st, cfg, lp, owners, nodes))) for lp in owners})
            missing = [p for p in want if w.peek(p) is None]
            if missing:
                op["faults"] = [{"seam": "open:w", "nth": 1, "path": rng.choice(missing), "errno": rng.choice(["EIO", "EACCES", "ENOSPC"]), "kind": "open-err"}]
        return op

    def gen_restart_load(self, st, rng, cfg, tgts, cfgpaths, owners):
        if not st.docs:
            return None
        i = rng.randrange(len(st.docs))
        if "subconfig-keyfile-reload" in st.h.get("avoid", ()) and any(lp for lp in st.docs[i].get("layout", {})):
            return None
        return {"op": "restart_load", "doc": i, "keep": rng.random() < 0.7, "ctor": rng.random() < 0.3}

    def gen_tree_check(self, st, rng, cfg, tgts, cfgpaths, owners):
        return {"op": "tree_check", "virtual": rng.random() < 0.4}

    def gen_adopt(self, st, rng, cfg, tgts, cfgpaths, owners):
        subs = [p for p, c in cfgpaths if "[" not in p]
        if not subs:
            return None
        secrets = ["s3cr3t!#1", "hunter2!!", "tok!en~value"]
        return {"op": "adopt", "path": rng.choice(subs), "secret": rng.choice(secrets)}

    def gen_set_keyfile(self, st, rng, cfg, tgts, cfgpaths, owners):
        paths = [""] + [p for p, c in cfgpaths]
        return {"op": "set_keyfile", "path": rng.choice(paths), "file": rng.choice(KEYFILES + [None])}

    def gen_key_event(self, st, rng, cfg, tgts, cfgpaths, owners):
        """The key file changes under a living configuration: torn, put back, replaced by another valid key, removed."""
        w = st.world
        keys = sorted(p for p in w.files if p.startswith("/keys/") or p.endswith(".cincokey"))
        if not keys:
            return None
        bak = getattr(st, "keybak", {})
        if bak and rng.random() < 0.6:
            return {"op": "key_event", "what": "restore", "path": rng.choice(sorted(bak))}
        return {"op": "key_event", "what": rng.choice(["damage", "damage", "rotate", "rotate", "remove"]), "path": rng.choice(keys)}

    def do_key_event(self, st, cfg, c, op, rec):
        import hashlib
        w = st.world
        p, what = op["path"], op["what"]
        bak = st.__dict__.setdefault("keybak", {})
        cur = w.peek(p)
        if what == "restore":
            if p not in bak:
                rec.log("key_event", "skip")
                return
            w.poke(p, bak.pop(p))
        elif cur is None:
            rec.log("key_event", "skip")
            return
        elif what == "damage":
            if len(cur) == 32:
                bak[p] = bytes(cur)
            w.poke(p, bytes(cur)[:16])
        elif what == "rotate":
            bak.pop(p, None)
            w.poke(p, hashlib.sha256(("%s#%d" % (p, w.step)).encode()).digest())
        else:
            bak.pop(p, None)
            w.unlink_quiet(p)
        # documents written under the previous content of the key file are not expected to load any more
        st.docs = []
        rec.log("key_event", what, p)
        rec.probe("key-file-" + what)

    def gen_mask(self, st, rng, cfg, tgts, cfgpaths, owners):
        how = rng.choice(["tree", "tree", "dumps", "save"])
        op = {"op": "mask", "how": how, "mask": rng.choice(MASKS + [None]), "virtual": rng.random() < 0.2}
        if how != "tree":
            op["fmt"] = rng.choice(ops.FORMATS)
        if rng.random() < 0.2:
            # a configuration object held by an untyped field (an `any` field of the root): "at any depth"
            anys = [t for t in tgts if t.node["kind"] == "any" and "." not in t.path and "[" not in t.path and not t.node.get("dynamic")
                    and not t.node.get("o", {}).get("sensitive") and not t.node.get("validator") and not t.node.get("o", {}).get("required")]
            if anys:
                op["stash"] = rng.choice(anys).path
        return op

    # =========================================================================== execution
    def apply(self, st, op, rec):
        kind = op["op"]
        if kind in ("save", "restart_load", "tree_check", "set_keyfile", "mask", "adopt", "evolve", "key_event"):
            getattr(self, "do_" + kind)(st, st.cfgs[0], 0, op, rec)
            return
        super().apply(st, op, rec)

    def valid_state(self, st, cfg):
        """The state passes validation: the configuration's own validate() and that of every configuration held
        in a list (validate() does not descend into list items, which are validated when loaded or inserted; an
        item made invalid afterwards, e.g. by resetting a required field, is not a valid state to save)."""
        try:
            cfg.validate()
            owners, _ = self.cfg_nodes(st, cfg)
            for p, obj in owners.items():
                if p.endswith("]"):
                    obj.validate()
            return True
        except SeamGap:
            raise
        except Exception:  # noqa: BLE001
            return False

    # ---- C02: the serialised tree is plain data, virtual/method fields only on request
    def do_tree_check(self, st, cfg, c, op, rec):
        if self.prop != "C02":
            rec.log("tree_check", "n/a")
            return
        virtual = bool(op.get("virtual"))
        tree, err = self._call(lambda: cfg.to_tree(virtual=virtual))
        rec.log("tree_check", virtual, type(err).__name__ if err else "ok")
        if err is not None:
            return
        rec.relevant += 1
        self.check_tree_shape(st, cfg, tree, virtual, rec, "to_tree")

    def check_tree_shape(self, st, cfg, tree, virtual, rec, route):
        rec.check()
        bad = plain_only(tree)
        if bad:
            rec.fail("C02/plain", "C02/tree-not-plain-data/%s/%s" % (route, bad.split(" of type ")[-1] if " of type " in bad else "key"),
                     "%s produced non-plain data at %s" % (route, bad))

        def shape(snode, t, prefix):
            if not isinstance(t, dict):
                return
            for f in snode["fields"]:
                k, p = f["key"], prefix + f["key"]
                if f["kind"] == "method" and k in t:
                    rec.fail("C02/plain", "C02/instance-method-in-tree/%s" % route, "%s: instance method %s is in the tree" % (route, p))
                if f["kind"] == "virtual":
                    if not virtual and k in t:
                        rec.fail("C02/plain", "C02/virtual-field-in-tree/%s" % route, "%s: virtual field %s in the tree without virtual=True" % (route, p))
                    if virtual and k in t:
                        rec.probe("virtual-field-in-virtual-output")
                if schema.is_cfg_node(f) and k in t:
                    shape(schema.sub_schema_node(st.sd, f), t[k], p + ".")

        shape(st.sd["root"], tree, "")

    # ---- save
    def do_save(self, st, cfg, c, op, rec):
        fmt, opts, fname = op["fmt"], op.get("opts", {}), op["file"]
        w = st.world
        if not self.valid_state(st, cfg):
            rec.log("save", "state-not-valid")
            rec.probe("save-skipped:invalid-state")
            return
        view = self.view(st, cfg)
        secrets = self.secrets_in(st, cfg)
        owners, nodes = self.cfg_nodes(st, cfg)
        keys = {p: self.key_for(st, cfg, op_, owners, nodes) for p, op_, _, _ in secrets}
        allkeys = sorted({self.key_for(st, cfg, lp, owners, nodes) for lp in owners})   # the key file of every configuration in the tree
        j0 = len(w.journal)
        kw = dict(opts)
        nfired = len(w.fired)
        # the save comes first: nothing the harness does may warm up (or use up) state inside the library beforehand
        dest = w.abspath(w.expanduser(fname))
        before = w.peek(dest)
        _, err = self._call(lambda: cfg.save(fname, fmt, **kw))
        if w.peek(dest) != before:
            # whatever is judged below, an earlier document under this name is gone
            st.docs = [d for d in st.docs if w.abspath(w.expanduser(d["file"])) != dest]
        if err is not None and len(w.fired) > nfired:
            rec.log("save", fname, fmt, "failed-under-injected-fault", type(err).__name__)
            rec.probe("save-failed-under-injected-fault")
            return
        # was the state representable in this format?  judged on the values the configuration holds, without calling into
        # the library again (an extra to_tree() would open the key file and could mask or heal what the save left behind)
        tree0 = live_plain_tree(cfg)
        if (plain_only(tree0) and not (self.prop == "C19" and fmt in ("yaml", "pickle"))) or not ops.in_format_domain(fmt, tree0):
            rec.log("save", "out-of-domain", fmt)
            rec.probe("save-skipped:out-of-domain")
            return
        rec.log("save", fname, fmt, sorted(opts), type(err).__name__ if err else "ok", len(secrets))
        rec.kind(fmt + (":ok" if err is None else ":err"))
        if err is not None:
            if self.prop == "C02":
                rec.fail("%s/save" % self.prop, "%s/save-raises/%s/%s" % (self.prop, fmt, type(err).__name__),
                         "saving a valid, representable state as %s raised %r" % (fmt, err))
            rec.probe("save-raised:" + type(err).__name__)     # C03 / C19 are conditional on the save succeeding
            return
        rec.relevant += 1
        content = w.peek(w.expanduser(fname))
        journal = w.journal[j0:]
        if self.prop == "C03":
            self.check_secrets_on_disk(st, rec, content, fmt, opts, secrets, keys, journal, "save", allkeys)
        # explicit key-file assignments in effect, by the *current* path of the object they were made on
        layout = {}
        for lp, obj in owners.items():
            ser = st.serials.of(obj)
            if ser in st.keyset:
                layout[lp] = st.keyset[ser]
        doc = {"file": fname, "fmt": fmt, "opts": opts, "view": view, "layout": layout, "secrets": [(p, v) for p, _, v, _ in secrets],
               "session": st.session, "virtual": bool(op.get("virtual")), "keys": keys, "allkeys": allkeys,
               "weak": fmt == "yaml" and ops.has_tuple(tree0)}
        st.docs = [d for d in st.docs if w.abspath(w.expanduser(d["file"])) != w.abspath(w.expanduser(fname))]
        st.docs.append(doc)
        if len(st.docs) > 6:
            st.docs.pop(0)
        rec.probe("saved:" + fmt)
        if secrets:
            rec.probe("saved-with-secrets")

    # ---- C03 oracles on the bytes that reached the disk
    def check_secrets_on_disk(self, st, rec, content, fmt, opts, secrets, keys, journal, route, allkeys=()):
        w = st.world
        rec.check()
        # (4) only the model's key files may be opened/created
        allowed = {w.abspath(w.expanduser(k)) for k in list(keys.values()) + list(allkeys)}
        keyish = set()
        for seq, step, kind, path, a, b in journal:
            if kind in ("open", "create") and path and (path.startswith("/keys/") or path.endswith("key")):
                keyish.add(path)
        extra = sorted(keyish - allowed)
        if extra:
            rec.fail("C03/keyfile", "C03/foreign-key-file-touched/%s/%s" % (route, "default" if World.DEFAULT_KEY in extra else "other"),
                     "%s touched key file(s) %r; the configuration's secrets belong to %r" % (route, extra, sorted(allowed)))
        if not secrets:
            return
        rec.relevant += 1
        # (1) no plaintext in the bytes
        for path, _, plain, _ in secrets:
            for enc_ in ("utf-8", "utf-16-le"):
                if plain.encode(enc_) in content:
                    rec.fail("C03/plaintext", "C03/plaintext-on-disk/%s/%s" % (route, fmt), "plaintext of %s occurs in the %s output" % (path, fmt))
            esc = plain.encode("ascii", "backslashreplace")
            if len(esc) > 5 and esc in content and esc != plain.encode("utf-8", "replace"):
                rec.fail("C03/plaintext", "C03/plaintext-on-disk/%s/%s" % (route, fmt), "escaped plaintext of %s occurs in the %s output" % (path, fmt))
        # (2)+(3) stored form and the key that was used
        try:
            tree = ops.parse_doc(fmt, content, opts) if fmt != "xml" else self.parse_xml(content, opts)
        except Exception as exc:  # noqa: BLE001
            rec.fail("C03/stored-form", "C03/output-does-not-parse/%s" % fmt, "saved %s document does not parse: %r" % (fmt, exc))
        for path, _, plain, node in secrets:
            slot = self.tree_at(tree, path)
            if not (isinstance(slot, dict) and "method" in slot and "ciphertext" in slot):
                rec.fail("C03/stored-form", "C03/secret-not-in-encrypted-form/%s" % route, "%s is stored as %r" % (path, slot))
            if slot["method"] not in ("aes", "xor"):
                rec.fail("C03/stored-form", "C03/method-not-concrete/%s" % slot["method"], "%s stored with method %r" % (path, slot["method"]))
            try:
                ct = base64.b64decode(slot["ciphertext"], validate=True)
            except Exception:  # noqa: BLE001
                rec.probe("ciphertext-text-form-not-base64")      # the text form of the ciphertext is not stated: no claim on it
                continue
            kpath = w.abspath(w.expanduser(keys[path]))
            key = w.peek(kpath)
            if key is None or len(key) != 32:
                rec.fail("C03/keyfile", "C03/model-key-file-missing/%s" % route,
                         "the key file %s that %s must use does not hold a key after %s" % (kpath, path, route))
            if slot["method"] == "xor":
                got = refcrypto.xor(ct, key)
            else:
                try:
                    got = refcrypto.aes_cbc_decrypt(key, ct[:16], ct[16:])
                except Exception:  # noqa: BLE001
                    got = None
            if got != plain.encode():
                which = "other"
                for cand in KEYFILES + ["~/.cincokey"]:
                    kb = w.peek(w.expanduser(cand))
                    if kb and len(kb) == 32:
                        try:
                            g2 = refcrypto.xor(ct, kb) if slot["method"] == "xor" else refcrypto.aes_cbc_decrypt(kb, ct[:16], ct[16:])
                        except Exception:  # noqa: BLE001
                            g2 = None
                        if g2 == plain.encode():
                            which = cand
                rec.fail("C03/keyfile", "C03/secret-encrypted-with-wrong-key/%s" % route,
                         "%s does not decrypt with %s (the nearest ancestor's key file); it decrypts with %s"
                         % (path, keys[path], which))
            rec.probe("secret-decrypts-with-model-key")

    def parse_xml(self, content, opts):
        from xml.etree import ElementTree as ET
        root = ET.fromstring(content.decode())

        def conv(e, forced=None):
            t = forced or e.attrib.get("type")
            if t == "dict":
                return {c.tag: conv(c) for c in e}
            if t == "list":
                return [conv(c) for c in e]
            if t == "none":
                return None
            return e.text or ""
        return conv(root, "dict")

    def tree_at(self, tree, path):
        cur = tree
        for name, idx, key in re.findall(r"([^.\[\]{}]+)|\[(\d+)\]|\{([^}]*)\}", path):
            try:
                if name:
                    cur = cur[name]
                elif idx:
                    cur = cur[int(idx)]
                else:
                    cur = cur[key] if key in cur else cur[next(k for k in cur if str(k) == key)]
            except Exception:  # noqa: BLE001
                return None
        return cur

    # ---- restart + load in a fresh session
    def do_restart_load(self, st, cfg, c, op, rec):
        if not st.docs:
            rec.log("restart_load", "skip")
            return
        doc = st.docs[op["doc"] % len(st.docs)]
        # the file may have been overwritten by a later save under the same name: that save is what is on disk
        doc = [d for d in st.docs if d["file"] == doc["file"]][-1]
        w = st.world
        self.new_session(st, rec)
        rec.probe("restart")
        fresh = st.cfgs[0]
        # the application re-establishes the same key-file layout before loading ("with the same key file")
        layout_class = "root-or-type-key"
        for lp, lf in doc.get("layout", {}).items():
            if "[" in lp:
                layout_class = "not-reproducible"      # a list item does not exist before the load
                continue
            try:
                obj = ops.resolve(fresh, lp)
            except Exception:  # noqa: BLE001
                obj = None
            if isinstance(obj, Config):
                obj._key_filename = lf
                st.keyset[st.serials.of(obj)] = lf
                st.layout[lp] = lf
                if lp:
                    layout_class = "sub-config-key" if layout_class != "not-reproducible" else layout_class
        if layout_class == "not-reproducible":
            rec.probe("reload-skipped:layout-not-reproducible")
            rec.log("restart_load", "layout-not-reproducible")
            return
        j0 = len(w.journal)
        opts = doc["opts"]
        err = None
        if (self.prop == "C03" and op.get("ctor") and st.h.get("root_key") and doc["fmt"] in ("json", "yaml", "bson") and doc["secrets"]
                and layout_class == "root-or-type-key" and not doc.get("layout")):
            # the application builds its configuration straight from the saved tree: the maps of the nested sections are handed
            # to the constructor together with the key file (constructor keywords are a loading route for sub-configurations)
            try:
                saved = ops.parse_doc(doc["fmt"], w.peek(w.expanduser(doc["file"])), opts)
            except Exception:  # noqa: BLE001
                saved = None
            sections = {f["key"]: saved[f["key"]] for f in st.sd["root"]["fields"]
                        if f["kind"] == "schema" and isinstance(saved, dict) and isinstance(saved.get(f["key"]), dict)}
            if sections:
                built, err = self._call(lambda: st.B.root(key_filename=st.h["root_key"], **sections))
                rec.log("restart_ctor", sorted(sections), type(err).__name__ if err else "ok")
                if err is None:
                    fresh = built
                    st.cfgs[0] = fresh
                    rec.probe("built-from-saved-sections:with-secret" if any("." in p_ for p_, _ in doc["secrets"]) else "built-from-saved-sections")
        if err is not None:
            pass
        elif opts:
            content = w.peek(w.expanduser(doc["file"]))
            _, err = self._call(lambda: fresh.loads(content, doc["fmt"], **{k: v for k, v in opts.items() if k != "pretty"}))
        else:
            _, err = self._call(lambda: fresh.load(doc["file"], doc["fmt"]))
        rec.log("restart_load", doc["file"], doc["fmt"], type(err).__name__ if err else "ok")
        rec.kind(doc["fmt"] + (":ok" if err is None else ":err"))
        rec.relevant += 1
        rec.check()
        if err is not None:
            if self.prop == "C03" and layout_class == "sub-config-key":
                rec.fail("C03/roundtrip", "C03/secret-not-recovered/key-file-assigned-to-sub-configuration-lost-on-load",
                         "a key file was assigned to a nested (sub)configuration before saving and again before loading; "
                         "the load replaced that configuration by a new object without the key file and failed: %s" % (err,))
            if self.prop in ("C02", "C03", "C19"):
                rec.fail("%s/load" % self.prop, "%s/load-of-saved-document-raises/%s/%s" % (self.prop, doc["fmt"], type(err).__name__),
                         "loading the %s document saved in session %d into a fresh configuration raised %s: %s"
                         % (doc["fmt"], doc["session"], type(err).__name__, err))
            return
        rec.probe("loaded:" + doc["fmt"])
        if doc.get("weak"):
            rec.probe("loaded-without-value-claim:yaml-tuple")
            return
        if self.prop in ("C02", "C19"):
            got = self.view(st, fresh)
            want = doc["view"]
            if got != want:
                keys = sorted(set(got) | set(want))
                for k in keys:
                    if got.get(k, "<absent>") != want.get(k, "<absent>"):
                        kind = self.kind_at(st, fresh, k)
                        rec.fail("%s/roundtrip" % self.prop, "%s/value-not-reproduced/%s/%s" % (self.prop, doc["fmt"], kind),
                                 "after save(%s) + load in a fresh session %s is %r, it was %r"
                                 % (doc["fmt"], k, got.get(k, "<absent>"), want.get(k, "<absent>")))
        if self.prop == "C03":
            journal = w.journal[j0:]
            owners2, nodes2 = self.cfg_nodes(st, fresh)
            allowed = {w.abspath(w.expanduser(k)) for k in list(doc["keys"].values()) + list(doc.get("allkeys", ()))
                       + [self.key_for(st, fresh, lp, owners2, nodes2) for lp in owners2]}
            keyish = {p for _, _, kind, p, _, _ in journal if kind in ("open", "create") and p and (p.startswith("/keys/") or p.endswith("key"))}
            # the layout must be the same for the claim to apply: key files set by set_keyfile are per session
            if True:
                extra = sorted(keyish - allowed)
                if extra and layout_class == "sub-config-key":
                    rec.fail("C03/roundtrip", "C03/secret-not-recovered/key-file-assigned-to-sub-configuration-lost-on-load",
                             "load used key file(s) %r instead of the one assigned to the nested (sub)configuration" % (extra,))
                if extra:
                    rec.fail("C03/keyfile", "C03/foreign-key-file-touched/load/%s" % ("default" if World.DEFAULT_KEY in extra else "other"),
                             "load touched key file(s) %r; the document's secrets belong to %r" % (extra, sorted(allowed)))
                for path, plain in doc["secrets"]:
                    try:
                        val = ops.resolve(fresh, re.sub(r"\{[^}]*\}$", "", path)) if "{" not in path else self.dict_entry(ops.resolve(fresh, path[:path.index("{")]), path[path.index("{") + 1:-1])
                    except Exception:  # noqa: BLE001
                        val = "<unreachable>"
                    if val != plain and layout_class == "sub-config-key":
                        rec.fail("C03/roundtrip", "C03/secret-not-recovered/key-file-assigned-to-sub-configuration-lost-on-load",
                                 "secret %s reads %r after load; a key file had been assigned to a nested (sub)configuration" % (path, val))
                    if val != plain:
                        rec.fail("C03/roundtrip", "C03/secret-not-recovered/%s" % doc["fmt"],
                                 "secret %s reads %r after load in a new session, plaintext was %r" % (path, val, plain))
                    rec.probe("secret-recovered-in-new-session")

    @staticmethod
    def dict_entry(d, text):
        for k, v in dict.items(d):
            if k == text or str(k) == text:
                return v
        return None

    def key_for_loaded(self, st, cfg, secret_path):
        owners, nodes = self.cfg_nodes(st, cfg)
        op_ = ops.split_last(re.sub(r"(\[\d+\]|\{[^}]*\})$", "", secret_path))[0]
        return self.key_for(st, cfg, op_, owners, nodes)

    def kind_at(self, st, cfg, path):
        p = path.replace("#len", "")
        tg, _, _ = ops.targets(st.sd, cfg)
        for t in tg:
            if t.path == p:
                n = t.node
                return n["kind"] + ("-of-" + n["item"]["kind"] if n.get("item") else "") + (
                    "-of-" + (n.get("kf") or {"kind": "any"})["kind"] + ":" + (n.get("vf") or {"kind": "any"})["kind"] if n["kind"] == "dict" else "")
        return "?"

    # ---- key file (re)assignment
    def do_set_keyfile(self, st, cfg, c, op, rec):
        try:
            target = ops.resolve(cfg, op["path"])
        except Exception:  # noqa: BLE001
            target = None
        if not isinstance(target, Config):
            rec.log("set_keyfile", "skip")
            return
        target._key_filename = op["file"]
        st.keyset[st.serials.of(target)] = op["file"]
        st.layout[op["path"]] = op["file"]
        rec.log("set_keyfile", op["path"], op["file"])
        rec.probe("set-keyfile:" + ("root" if not op["path"] else "sub") + (":none" if not op["file"] else ""))

    def do_adopt(self, st, cfg, c, op, rec):
        """Assign a sub-configuration object that lives in another tree (with another key file) into this one:
        from then on it belongs here and must use this tree's key files."""
        path = op["path"]
        other = self.other_tree(st)
        opath, key = ops.split_last(path)
        try:
            owner = ops.resolve(cfg, opath)
            donor = ops.resolve(other, path)
        except Exception:  # noqa: BLE001
            rec.log("adopt", "skip")
            return
        if not isinstance(owner, Config) or not isinstance(donor, Config):
            rec.log("adopt", "skip")
            return
        # give the donor a secret to carry, and make it encrypt once under its old tree's key (realistic: it was in use)
        tg, _, _ = ops.targets(st.sd, other)
        sec = [t for t in tg if t.path.startswith(path + ".") and t.node["kind"] == "secure" and "[" not in t.path]
        for t in sec[:2]:
            try:
                setattr(t.owner, ops.split_last(t.path)[1], op["secret"])
            except Exception:  # noqa: BLE001
                pass
        self._call(lambda: other.dumps("json"))
        _, err = self._call(lambda: setattr(owner, key, donor))
        rec.log("adopt", path, type(err).__name__ if err else "ok")
        rec.kind("ok" if err is None else "rej")
        st.other = None      # the donor tree gave a part away: a fresh one is built when needed again
        if err is None:
            rec.probe("sub-configuration-adopted-from-other-tree" + (":with-secret" if sec else ""))

    def gen_evolve(self, st, rng, cfg, tgts, cfgpaths, owners):
        """The application adds a field to a schema that is already in use (plug-ins do this): here a sensitive
        string with a distinctive default, added with item syntax at the root or in a nested schema."""
        if st.h.get("evolved", 0) >= 2:
            return None
        nested = [p for p, f in schema.iter_cfg_paths(st.sd) if f["kind"] == "schema" and "ref" not in f]
        where = rng.choice([""] + nested) if nested else ""
        n = sum(1 for o in getattr(st, "evolutions", []))
        return {"op": "evolve", "where": where, "key": "late%d" % n, "sensitive": rng.random() < 0.8,
                "how": rng.choice(["item", "attr"])}

    def do_evolve(self, st, cfg, c, op, rec):
        import cincoconfig as cc
        where, key = op["where"], op["key"]
        node = st.sd["root"] if not where else schema.node_at(st.sd, where)
        if node is None or node.get("kind") != "schema" or any(f["key"] == key for f in node["fields"]):
            rec.log("evolve", "skip")
            return
        leaf = {"kind": "string", "key": key, "o": {"default": "late!%s!secret#" % key}}
        if op.get("sensitive"):
            leaf["o"]["sensitive"] = True
        # the real schema object of this session
        real = st.B.root if not where else st.B.fields.get(where)
        if real is None:
            rec.log("evolve", "skip")
            return
        fld = cc.StringField(default=leaf["o"]["default"], sensitive=bool(op.get("sensitive")))
        if op.get("how") == "item":
            real[key] = fld
        else:
            setattr(real, key, fld)
        tag = (where + "." if where else "") + key
        st.B.fields[tag] = fld
        node["fields"].append(leaf)
        st.evolutions = getattr(st, "evolutions", []) + [op]
        # existing configurations do not have the new field's default yet; a configuration built from now on does
        st.keyset = {}
        kw = {"key_filename": st.h["root_key"]} if st.h.get("root_key") else {}
        st.cfgs = [st.B.root(**kw)]
        rec.log("evolve", where, key, op.get("how"))
        rec.probe("schema-evolved:" + ("nested" if where else "root"))

    # ---- C10
    def do_mask(self, st, cfg, c, op, rec):
        if self.prop != "C10":
            rec.log("mask", "n/a")
            return
        mask, how, virtual = op.get("mask"), op["how"], bool(op.get("virtual"))
        w = st.world
        stash = op.get("stash")
        if stash and mask is not None:
            import cincoconfig as cc
            sch = cc.Schema()
            sch.token = cc.StringField(sensitive=True)
            sch.note = cc.StringField()
            held = sch()
            held.token, held.note = "stash!secret#%d" % w.step, "visible"
            old_value, e_old = self._call(lambda: getattr(cfg, stash))
            _, e_set = self._call(lambda: setattr(cfg, stash, held))
            if e_old is not None or e_set is not None:
                stash = None
            else:
                try:
                    self._masked_render(st, cfg, op, rec, mask, how, virtual, stash, held)
                finally:
                    self._call(lambda: setattr(cfg, stash, old_value))
                return
        self._masked_render(st, cfg, op, rec, mask, how, virtual, None, None)

    def _masked_render(self, st, cfg, op, rec, mask, how, virtual, stash, held):
        w = st.world
        plain_tree, err0 = self._call(lambda: cfg.to_tree(virtual=virtual))
        if err0 is not None:
            rec.log("mask", "to_tree-raised")
            return
        content = None
        if how == "tree":
            tree, err = self._call(lambda: cfg.to_tree(virtual=virtual, sensitive_mask=mask))
        else:
            fmt = op["fmt"]
            ref_tree, _ = self._call(lambda: cfg.to_tree(virtual=virtual, sensitive_mask=mask))
            if ref_tree is None or plain_only(ref_tree) or not ops.in_format_domain(fmt, ref_tree):
                rec.log("mask", "out-of-domain")
                return
            if how == "dumps":
                content, err = self._call(lambda: cfg.dumps(fmt, virtual=virtual, sensitive_mask=mask))
            else:
                _, err = self._call(lambda: cfg.save("/data/masked.out", fmt, virtual=virtual, sensitive_mask=mask))
                content = w.peek("/data/masked.out") if err is None else None
            tree = None
            if err is None:
                try:
                    tree = ops.parse_doc(fmt, content) if fmt != "xml" else None
                except Exception:  # noqa: BLE001
                    tree = None
        rec.log("mask", how, mask, type(err).__name__ if err else "ok")
        rec.kind(how + ":" + ("none" if mask is None else "one" if len(mask) == 1 else "empty" if mask == "" else "multi"))
        if err is not None:
            rec.fail("C10/render", "C10/masked-render-raises/%s/%s" % (how, type(err).__name__), "rendering with mask %r raised %r" % (mask, err))
        rec.relevant += 1
        if stash:
            rec.check()
            expect = mask * len(held.token) if len(mask) == 1 else mask
            slot = self.tree_at(tree, stash) if tree is not None else None
            # a configuration object parked in an untyped field is not among the places C10 lists (root, nested
            # sub-configurations, config types, list items): how it is rendered is observed, not judged
            masked = tree is None or (isinstance(slot, dict) and slot.get("token") == expect and slot.get("note") == "visible")
            leaked = content is not None and held.token.encode() in content
            rec.probe("config-held-by-untyped-field:" + ("masked" if masked and not leaked else "not-masked"))
        self.check_mask(st, cfg, rec, mask, how, tree, plain_tree, content, op.get("fmt"), skip=(stash,) if stash else ())

    def check_mask(self, st, cfg, rec, mask, how, tree, plain_tree, content, fmt, skip=()):
        """tree: masked tree (None for XML documents: only the byte scan applies there)."""
        sens = []     # (path, value, node)
        nons = []

        def visit(path, node, value):
            if node["kind"] in ("method",) or schema.is_cfg_node(node) or value is schema.MISSING or path in skip:
                return
            if node.get("dynamic"):
                if "." not in str(node.get("rawkey", "")):      # an undeclared key "a.b" cannot be told from the path a.b
                    nons.append((path, value, node))
                return
            is_sens = node.get("o", {}).get("sensitive", node["kind"] == "secure")
            if node["kind"] == "list" and node.get("item") and schema.is_cfg_node(node["item"]):
                # a list of configurations: when the list field itself is sensitive the whole list is one
                # masked value and its items are not rendered; otherwise the items are judged one by one
                if is_sens and value:
                    hidden.append(path + "[")
                    sens.append((path, value, node))
                return
            (sens if is_sens else nons).append((path, value, node))

        hidden = []
        schema.walk(st.sd, cfg, visit)
        sens = [x for x in sens if not any(x[0].startswith(h) for h in hidden)]
        nons = [x for x in nons if not any(x[0].startswith(h) for h in hidden)]
        rec.check()
        if mask is None:
            if tree is not None and not self.trees_equal_modulo_secrets(tree, plain_tree):
                rec.fail("C10/nomask", "C10/no-mask-alters-output/%s" % how, "rendering with sensitive_mask=None differs from the plain rendering")
            return
        for path, value, node in sens:
            if value is None or value == "" or value is False or value == 0 or (hasattr(value, "__len__") and len(value) == 0):
                continue     # falsy values: how they are rendered under a mask is unspecified (DESIGN 8.1)
            in_list_item = "[" in path
            expect = mask * len(str(value)) if len(mask) == 1 else mask
            if tree is not None:
                slot = self.tree_at(tree, path)
                if node["kind"] == "virtual" and slot is None:
                    continue
                rec.check()
                if slot != expect:
                    rec.fail("C10/masked", "C10/sensitive-not-masked/%s/%s/%s" % (how, "list-item-config" if in_list_item else "config", node["kind"]),
                             "sensitive field %s (%s) is rendered as %r under mask %r, expected %r" % (path, node["kind"], slot, mask, expect))
                rec.probe("sensitive-slot-masked" + (":list-item" if in_list_item else ""))
            if content is not None and isinstance(value, str) and len(value) >= 6 and any(ch in value for ch in "!#@~"):
                rec.check()
                if value.encode() in content:
                    rec.fail("C10/masked", "C10/sensitive-plaintext-in-document/%s/%s" % (fmt, "list-item-config" if in_list_item else "config"),
                             "sensitive value of %s occurs in the %s document rendered with mask %r" % (path, fmt, mask))
        if tree is not None:
            for path, value, node in nons:
                if node["kind"] == "secure":
                    # declared not sensitive: still rendered in its stored (encrypted) form; the ciphertext itself differs
                    # between two renderings (fresh IV), so the comparison is on the shape and the method
                    a, b = self.tree_at(tree, path), self.tree_at(plain_tree, path)
                    rec.check()
                    if not self.trees_equal_modulo_secrets(a, b):
                        rec.fail("C10/others", "C10/non-sensitive-altered/%s/secure" % how,
                                 "secure field %s declared sensitive=False renders as %r with a mask and %r without" % (path, a, b))
                    rec.probe("non-sensitive-secure-field-compared")
                    continue
                if node["kind"] in ("secure", "virtual") or (node.get("item") or {}).get("kind") == "secure" or (node.get("vf") or {}).get("kind") == "secure":
                    continue
                a, b = self.tree_at(tree, path), self.tree_at(plain_tree, path)
                rec.check()
                if tcanon(a) != tcanon(b):
                    rec.fail("C10/others", "C10/non-sensitive-altered/%s/%s" % (how, node["kind"]),
                             "non-sensitive field %s renders as %r with a mask and %r without" % (path, a, b))

    def trees_equal_modulo_secrets(self, a, b):
        if isinstance(a, dict) and isinstance(b, dict):
            if set(a) == {"method", "ciphertext"} and set(b) == {"method", "ciphertext"}:
                return a["method"] == b["method"]
            return set(a) == set(b) and all(self.trees_equal_modulo_secrets(a[k], b[k]) for k in a)
        if isinstance(a, list) and isinstance(b, list):
            return len(a) == len(b) and all(self.trees_equal_modulo_secrets(x, y) for x, y in zip(a, b))
        return tcanon(a) == tcanon(b)

    def shrink_header(self, header, ops_):
        yield from super().shrink_header(header, ops_)


C02, C03, C10 = PersistScenario("C02"), PersistScenario("C03"), PersistScenario("C10")
