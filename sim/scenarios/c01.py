"""C01 = the `state` scenario + configurations whose schema grows while they live (`growth`)."""
from ..engine import MultiScenario
from . import growth, state

SCENARIO = MultiScenario("C01", [(0.93, state.C01), (0.07, growth.SCENARIOS["C01"])])
