"""Canonical, address-free snapshots of live configurations (used by every 'unchanged'/'equal'
oracle).  Built only from public observations: iteration over the configuration, attribute access,
``is_value_defined``; identity is a per-run serial number assigned on first sight (never id())."""
from cincoconfig.core import Config
from cincoconfig.support import is_value_defined

from .codec import canon


class Serials:
    def __init__(self):
        self._ids = {}
        self._keep = []

    def of(self, obj):
        i = id(obj)
        if i not in self._ids:
            self._ids[i] = len(self._keep)
            self._keep.append(obj)     # keep alive so the id is never reused
        return self._ids[i]


def snap_value(v, serials=None, defined=True, depth=0):
    if isinstance(v, Config):
        return snap(v, serials, defined, depth + 1)
    if isinstance(v, list):
        return ("list:" + type(v).__name__, [snap_value(x, serials, defined, depth + 1) for x in list.__iter__(v)])
    if isinstance(v, tuple) and not hasattr(v, "_fields"):
        return ("tuple", [snap_value(x, serials, defined, depth + 1) for x in v])
    if isinstance(v, dict):
        items = [(canon(k), snap_value(x, serials, defined, depth + 1)) for k, x in dict.items(v)]
        items.sort(key=lambda kv: repr(kv[0]))
        return ("dict:" + type(v).__name__, items)
    return canon(v)


def snap(cfg, serials=None, defined=True, depth=0):
    """-> ("cfg", serial|None, [(key, value snapshot, user-defined flag)...] in iteration order)"""
    if depth > 10:
        return ("deep",)
    rows = []
    it = iter(cfg)
    while True:
        try:
            key, value = next(it)
        except StopIteration:
            break
        except Exception as exc:  # noqa: BLE001 - a configuration that cannot even be enumerated: part of what is observed
            if type(exc).__name__ == "SeamGap":
                raise
            rows.append(("<enumeration fails>", "err:" + type(exc).__name__, None))
            break
        flag = None
        if defined and isinstance(key, str) and "." not in key:
            # (is_value_defined() reads a key with a dot as a path into nested configurations: for an undeclared key
            # like "a.b" it would answer for another field)
            try:
                flag = bool(is_value_defined(cfg, key))
            except Exception as exc:  # noqa: BLE001
                flag = "err:" + type(exc).__name__
        rows.append((key, snap_value(value, serials, defined, depth), flag))
    return ("cfg", serials.of(cfg) if serials is not None else None, type(cfg).__name__ if type(cfg) is not Config else "Config", rows)


def diff(a, b, path=""):
    """First difference between two snapshots as (path, a-part, b-part), or None."""
    if a == b:
        return None
    if isinstance(a, tuple) and isinstance(b, tuple) and a and b and a[0] == "cfg" and b[0] == "cfg":
        if a[1] != b[1]:
            return (path or "<root>", "config object #%s" % a[1], "config object #%s" % b[1])
        if a[2] != b[2]:
            return (path or "<root>", a[2], b[2])
        ra, rb = a[3], b[3]
        ka, kb = [r[0] for r in ra], [r[0] for r in rb]
        if ka != kb:
            return (path or "<root>", "keys %r" % ka, "keys %r" % kb)
        for x, y in zip(ra, rb):
            p = (path + "." if path else "") + (x[0] if isinstance(x[0], str) else repr(x[0]))
            if x[2] != y[2]:
                return (p, "user-defined=%r" % x[2], "user-defined=%r" % y[2])
            d = diff(x[1], y[1], p)
            if d:
                return d
        return (path, "?", "?")
    if (isinstance(a, tuple) and isinstance(b, tuple) and len(a) == 2 and len(b) == 2 and a[0] == b[0]
            and isinstance(a[1], list) and isinstance(b[1], list)):
        if len(a[1]) != len(b[1]):
            return (path, "%s of %d" % (a[0], len(a[1])), "%s of %d" % (b[0], len(b[1])))
        for i, (x, y) in enumerate(zip(a[1], b[1])):
            if a[0].startswith("dict"):
                if x[0] != y[0]:
                    return ("%s[%r]" % (path, x[0]), x[0], y[0])
                d = diff(x[1], y[1], "%s[%r]" % (path, x[0][1] if isinstance(x[0], tuple) and len(x[0]) > 1 else x[0]))
            else:
                d = diff(x, y, "%s[%d]" % (path, i))
            if d:
                return d
    return (path or "<root>", a, b)


_PART = __import__("re").compile(r"([^.\[\]]+)|\[(\d+)\]")


def strip_under(s, path):
    """Snapshot with everything at/under ``path`` ('a.b[2].c') replaced by a marker (frame
    conditions: 'the operation changes nothing else')."""
    parts = [(n, i) for n, i in _PART.findall(path)] if path else []
    return _strip(s, parts)


def _strip(s, parts):
    if not parts:
        return ("*",)
    name, idx = parts[0]
    if name:
        if not (isinstance(s, tuple) and s and s[0] == "cfg"):
            return s
        rows = []
        for key, val, flag in s[3]:
            if key == name:
                if len(parts) == 1:
                    continue   # dropped, so that a key that did not exist before compares equal
                else:
                    rows.append((key, _strip(val, parts[1:]), flag))
            else:
                rows.append((key, val, flag))
        return (s[0], s[1], s[2], rows)
    if isinstance(s, tuple) and len(s) == 2 and isinstance(s[1], list) and str(s[0]).startswith("list"):
        i = int(idx)
        items = list(s[1])
        if 0 <= i < len(items):
            items[i] = _strip(items[i], parts[1:])
        return (s[0], items)
    return s


def strip_keys(s, keys):
    """Top-level rows for ``keys`` replaced by a marker."""
    if not (isinstance(s, tuple) and s and s[0] == "cfg"):
        return s
    return (s[0], s[1], s[2], [(k, v, f) for k, v, f in s[3] if k not in keys])


def sub_snapshot(s, path):
    """The part of a snapshot at ``path`` (or None)."""
    parts = [(n, i) for n, i in _PART.findall(path)] if path else []
    for name, idx in parts:
        if name:
            if not (isinstance(s, tuple) and s and s[0] == "cfg"):
                return None
            s = next((v for k, v, f in s[3] if k == name), None)
        else:
            if not (isinstance(s, tuple) and len(s) == 2 and isinstance(s[1], list)):
                return None
            i = int(idx)
            s = s[1][i] if 0 <= i < len(s[1]) else None
        if s is None:
            return None
    return s
