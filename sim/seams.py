"""Seam installation: module-global injection into every ``cincoconfig.*`` module.

No hook in /repo is needed (DESIGN §2.2): ``open``, ``os`` and ``socket`` are looked up as module
globals by the library, so the simulator sets those names in the library's module dictionaries --
the mechanism the repository's own tests use (``patch("cincoconfig.encryption.open")``).
"""
import builtins
import os as _os
import posixpath
import socket as _socket
import sys

from .world import SeamGap, World

SRC = _os.environ.get("CINCO_SRC") or "/repo"
if sys.path[0] != SRC:
    sys.path.insert(0, SRC)

import cincoconfig  # noqa: E402
import cincoconfig.formats  # noqa: E402,F401
from cincoconfig.core import Config, ConfigFormat  # noqa: E402

if not _os.path.abspath(cincoconfig.__file__).startswith(_os.path.abspath(SRC) + _os.sep):
    raise RuntimeError("cincoconfig imported from %s, expected under %s" % (cincoconfig.__file__, SRC))

_PURE_PATH = ("join", "isabs", "normpath", "dirname", "basename", "split", "splitext", "commonprefix",
              "commonpath", "normcase", "splitdrive")


class PathFacade:
    sep = "/"
    altsep = None
    pathsep = ":"
    curdir = "."
    pardir = ".."
    extsep = "."

    def __init__(self, world):
        self._w = world
        for name in _PURE_PATH:
            setattr(self, name, getattr(posixpath, name))

    def expanduser(self, path):
        return self._w.expanduser(path)

    def expandvars(self, path):
        return path

    def abspath(self, path):
        return self._w.abspath(path)

    realpath = abspath

    def relpath(self, path, start=None):
        return posixpath.relpath(self._w.abspath(path), self._w.abspath(start or self._w.cwd))

    def exists(self, path):
        return self._w.exists(path)

    lexists = exists

    def isfile(self, path):
        return self._w.isfile(path)

    def isdir(self, path):
        return self._w.isdir(path)

    def islink(self, path):
        return False

    def getsize(self, path):
        return self._w.getsize(path)

    def __getattr__(self, name):
        raise SeamGap("os.path." + name)


class OsFacade:
    sep = "/"
    altsep = None
    linesep = "\n"
    name = "posix"
    curdir = "."
    pardir = ".."
    extsep = "."
    pathsep = ":"
    error = OSError
    PathLike = _os.PathLike
    devnull = "/dev/null"

    def __init__(self, world):
        self._w = world
        self.path = PathFacade(world)
        self.environ = world.env

    def urandom(self, n):
        return self._w.urandom(n)

    def getcwd(self):
        return self._w.cwd

    def getenv(self, key, default=None):
        return self._w.env.get(key, default)

    def fspath(self, path):
        return _os.fspath(path)

    def replace(self, src, dst):
        return self._w.replace(src, dst)

    rename = replace

    def remove(self, path):
        return self._w.remove(path)

    unlink = remove

    def makedirs(self, path, mode=0o777, exist_ok=False):
        return self._w.makedirs(path, mode, exist_ok)

    def mkdir(self, path, mode=0o777):
        return self._w.makedirs(path, mode, False)

    def fsync(self, fd):
        return None

    def stat(self, path, *a, **k):
        return self._w.stat(path)

    lstat = stat

    def access(self, path, mode=0):
        w = self._w
        p = w.abspath(path)
        if p not in w.files and p not in w.dirs:
            return False
        if mode & _os.R_OK and p in w.unreadable:
            return False
        if mode & _os.W_OK and p in w.unwritable:
            return False
        return True

    F_OK, R_OK, W_OK, X_OK = _os.F_OK, _os.R_OK, _os.W_OK, _os.X_OK

    def listdir(self, path="."):
        w = self._w
        p = w.abspath(path)
        if p not in w.dirs:
            raise __import__("sim.world", fromlist=["oserror"]).oserror("ENOENT" if p not in w.files else "ENOTDIR", path)
        pre = p.rstrip("/") + "/"
        names = {q[len(pre):].split("/")[0] for q in list(w.files) + list(w.dirs) if q.startswith(pre) and q != p}
        return sorted(names)

    def getpid(self):
        return 4242

    def strerror(self, code):
        return _os.strerror(code)

    def __getattr__(self, name):
        raise SeamGap("os." + name)


class SocketFacade:
    gaierror = _socket.gaierror
    herror = _socket.herror
    error = _socket.error
    timeout = _socket.timeout
    AF_INET = _socket.AF_INET

    def __init__(self, world):
        self._w = world

    def gethostbyname(self, name):
        return self._w.gethostbyname(name)

    def inet_aton(self, s):
        return _socket.inet_aton(s)

    def __getattr__(self, name):
        raise SeamGap("socket." + name)


# --------------------------------------------------------------------------- installation

_installed = None
_saved = {}
_real = {}


def _lib_modules():
    return [m for n, m in list(sys.modules.items()) if m is not None and (n == "cincoconfig" or n.startswith("cincoconfig."))]


def _lib_frame_on_stack():
    f = sys._getframe(2)
    while f is not None:
        name = f.f_globals.get("__name__", "")
        if name == "cincoconfig" or name.startswith("cincoconfig."):
            return "%s:%d" % (f.f_code.co_filename, f.f_lineno)
        if name.startswith("importlib"):
            return None
        f = f.f_back
    return None


def _fs(path):
    return _os.fspath(path) if isinstance(path, _os.PathLike) else path


def _routes(w):
    """World-side implementation for every guarded real function (None: no simulated counterpart)."""
    osf = OsFacade(w)
    return {
        "builtins.open": lambda path, mode="r", *a, **k: w.open(_fs(path), mode, *a, **k),
        "io.open": lambda path, mode="r", *a, **k: w.open(_fs(path), mode, *a, **k),
        "os.urandom": w.urandom,
        "random._urandom": w.urandom,
        "os.getenv": osf.getenv,
        "os.getcwd": osf.getcwd,
        "os.stat": lambda path, *a, **k: osf.stat(_fs(path)),
        "os.lstat": lambda path, *a, **k: osf.stat(_fs(path)),
        "os.access": lambda path, mode=0, **k: osf.access(_fs(path), mode),
        "os.listdir": lambda path=".": osf.listdir(_fs(path)),
        "os.replace": lambda a, b, **k: osf.replace(_fs(a), _fs(b)),
        "os.rename": lambda a, b, **k: osf.replace(_fs(a), _fs(b)),
        "os.remove": lambda path, **k: osf.remove(_fs(path)),
        "os.unlink": lambda path, **k: osf.remove(_fs(path)),
        "os.mkdir": lambda path, mode=0o777, **k: osf.mkdir(_fs(path), mode),
        "os.makedirs": lambda path, mode=0o777, exist_ok=False: osf.makedirs(_fs(path), mode, exist_ok),
        "posixpath.expanduser": lambda path: w.expanduser(_fs(path)),
        "socket.gethostbyname": w.gethostbyname,
    }


def _guard(name, fn):
    """Wrap a real process-level function: a call that has a library frame on its stack did not go through the module
    globals the simulator replaced (``from os import urandom``, ``pathlib``, ``secrets``...).  It is served by the
    world when the world has a counterpart -- so that a library which reaches the operating system another way is
    still simulated and journaled -- and is a seam gap (HARNESS-ERROR, never a verdict) otherwise."""
    def guarded(*a, **k):
        w = _installed
        if w is not None:
            where = _lib_frame_on_stack()
            if where:
                route = _route_table.get(name)
                if route is None:
                    w.escapes.append((name, where))
                    raise SeamGap("escape: real %s reached from %s" % (name, where))
                w.rerouted[name] = w.rerouted.get(name, 0) + 1
                return route(*a, **k)
        return fn(*a, **k)
    guarded.__name__ = getattr(fn, "__name__", name)
    guarded._cincosim_guard = True
    guarded._cincosim_name = name
    return guarded


import io as _io      # noqa: E402
import random as _random      # noqa: E402

_GUARDED = [(builtins, "open", "builtins.open"), (_io, "open", "io.open"), (_os, "urandom", "os.urandom"),
            (_random, "_urandom", "random._urandom"), (_os, "open", "os.open"), (_os, "replace", "os.replace"),
            (_os, "rename", "os.rename"), (_os, "remove", "os.remove"), (_os, "unlink", "os.unlink"), (_os, "mkdir", "os.mkdir"),
            (_os, "makedirs", "os.makedirs"), (_os, "stat", "os.stat"), (_os, "lstat", "os.lstat"), (_os, "access", "os.access"),
            (_os, "listdir", "os.listdir"), (_os, "getcwd", "os.getcwd"), (_os, "getenv", "os.getenv"),
            (posixpath, "expanduser", "posixpath.expanduser"),
            (_socket, "gethostbyname", "socket.gethostbyname"), (_socket, "getaddrinfo", "socket.getaddrinfo")]
_REAL0 = {name: getattr(owner, attr) for owner, attr, name in _GUARDED}      # the real functions, captured before any guard
_REAL_ENVIRON = _os.environ
_route_table = {}


def _by_value(world, osf, sockf):
    """Replacement for real objects a library module may hold under any name (``from os import urandom``,
    ``import os as _os``, ``from os.path import exists``...)."""
    out = {id(_os): osf, id(posixpath): osf.path, id(_socket): sockf, id(_REAL_ENVIRON): world.env}
    routes = _routes(world)
    for name, real in _REAL0.items():
        if name in routes:
            out[id(real)] = routes[name]
    for fn in ("exists", "lexists", "isfile", "isdir", "abspath", "realpath", "getsize", "relpath", "islink"):
        out[id(getattr(posixpath, fn))] = getattr(osf.path, fn)
    return out


def install(world):
    """Route every seam of the library into ``world`` and arm the escape detector."""
    global _installed, _route_table
    if _installed is not None:
        uninstall()
    osf, sockf = OsFacade(world), SocketFacade(world)
    if not hasattr(world, "rerouted"):
        world.rerouted = {}
    byval = _by_value(world, osf, sockf)
    for mod in _lib_modules():
        d = mod.__dict__
        saved = {k: d.get(k, _MISSING) for k in ("open", "os", "socket")}
        d["open"] = world.open
        d["os"] = osf
        d["socket"] = sockf
        for k, v in list(d.items()):
            if k in ("open", "os", "socket") or k.startswith("__"):
                continue
            if getattr(v, "_cincosim_guard", False):
                v = _REAL0.get(v._cincosim_name, v)
            rep = byval.get(id(v))
            if rep is not None:
                saved[k] = d[k]
                d[k] = rep
        _saved[mod.__name__] = saved
    _saved["__key"] = Config.DEFAULT_CINCOKEY_FILEPATH
    Config.DEFAULT_CINCOKEY_FILEPATH = World.DEFAULT_KEY
    _route_table = _routes(world)
    for owner, attr, name in _GUARDED:
        fn = getattr(owner, attr)
        if getattr(fn, "_cincosim_guard", False):
            continue
        _real[(owner, attr)] = fn
        setattr(owner, attr, _guard(name, fn))
    _installed = world
    return world


_MISSING = object()


def uninstall():
    global _installed
    for mod in _lib_modules():
        saved = _saved.get(mod.__name__)
        if not saved:
            continue
        for k, v in saved.items():
            if v is _MISSING:
                mod.__dict__.pop(k, None)
            else:
                mod.__dict__[k] = v
    if "__key" in _saved:
        Config.DEFAULT_CINCOKEY_FILEPATH = _saved["__key"]
    for (owner, name), fn in _real.items():
        setattr(owner, name, fn)
    _real.clear()
    _saved.clear()
    _installed = None


def switch(world):
    """Point the already-installed seams at another world (used for clones in fault enumeration)."""
    install(world)


# --------------------------------------------------------------------------- process image

_IMAGE_MODS = set()
_IMAGE = []          # (container object, pristine deep copy): module-level and class-level mutable containers of the library


def _snapshot_process_image():
    """Remember the contents of every mutable container the library keeps at module or class level (format registry,
    caches, memo tables...) as they are right after import: one simulated process start."""
    import copy
    import inspect
    seen = {id(o) for o, _ in _IMAGE}

    def note(obj):
        if type(obj) in (dict, list, set) and id(obj) not in seen:
            seen.add(id(obj))
            try:
                _IMAGE.append((obj, copy.deepcopy(obj)))
            except Exception:  # noqa: BLE001 - holds something that cannot be copied: left alone
                pass

    for mod in _lib_modules():
        if mod.__name__ in _IMAGE_MODS:
            continue
        _IMAGE_MODS.add(mod.__name__)
        for name, value in list(vars(mod).items()):
            if name.startswith("__") or name in ("open", "os", "socket"):
                continue
            note(value)
            if inspect.isclass(value) and getattr(value, "__module__", "").startswith("cincoconfig"):
                for cname, cval in list(vars(value).items()):
                    if not (cname.startswith("__") and cname.endswith("__")):
                        note(cval)


def reset_process_state():
    """What a process restart resets besides Python objects: everything the library keeps at module or class level
    (the format registry, and any cache a changed tree may add) goes back to its state right after import."""
    import copy
    _snapshot_process_image()          # modules imported since (lazily loaded formats)
    for obj, pristine in _IMAGE:
        fresh = copy.deepcopy(pristine)
        if isinstance(obj, list):
            obj[:] = fresh
        else:
            obj.clear()
            obj.update(fresh)
    try:
        ConfigFormat._ConfigFormat__initialized = False
    except AttributeError:  # a changed tree may have renamed it
        pass
    for mod in _lib_modules():
        for value in list(vars(mod).values()):
            if callable(value) and hasattr(value, "cache_clear"):
                try:
                    value.cache_clear()      # functools caches at module level
                except Exception:  # noqa: BLE001
                    pass


_snapshot_process_image()
