"""Seam installation: module-global injection into every ``cincoconfig.*`` module.

No hook in /repo is needed (DESIGN §2.2): ``open``, ``os`` and ``socket`` are looked up as module
globals by the library, so the simulator sets those names in the library's module dictionaries --
the mechanism the repository's own tests use (``patch("cincoconfig.encryption.open")``).
"""
import builtins
import os as _os
import posixpath
import socket as _socket
import sys

from .world import SeamGap, World

SRC = _os.environ.get("CINCO_SRC") or "/repo"
if sys.path[0] != SRC:
    sys.path.insert(0, SRC)

import cincoconfig  # noqa: E402
import cincoconfig.formats  # noqa: E402,F401
from cincoconfig.core import Config, ConfigFormat  # noqa: E402

if not _os.path.abspath(cincoconfig.__file__).startswith(_os.path.abspath(SRC) + _os.sep):
    raise RuntimeError("cincoconfig imported from %s, expected under %s" % (cincoconfig.__file__, SRC))

_PURE_PATH = ("join", "isabs", "normpath", "dirname", "basename", "split", "splitext", "commonprefix",
              "commonpath", "normcase", "splitdrive")


class PathFacade:
    sep = "/"
    altsep = None
    pathsep = ":"
    curdir = "."
    pardir = ".."
    extsep = "."

    def __init__(self, world):
        self._w = world
        for name in _PURE_PATH:
            setattr(self, name, getattr(posixpath, name))

    def expanduser(self, path):
        return self._w.expanduser(path)

    def expandvars(self, path):
        return path

    def abspath(self, path):
        return self._w.abspath(path)

    realpath = abspath

    def relpath(self, path, start=None):
        return posixpath.relpath(self._w.abspath(path), self._w.abspath(start or self._w.cwd))

    def exists(self, path):
        return self._w.exists(path)

    lexists = exists

    def isfile(self, path):
        return self._w.isfile(path)

    def isdir(self, path):
        return self._w.isdir(path)

    def islink(self, path):
        return False

    def getsize(self, path):
        return self._w.getsize(path)

    def __getattr__(self, name):
        raise SeamGap("os.path." + name)


class OsFacade:
    sep = "/"
    altsep = None
    linesep = "\n"
    name = "posix"
    curdir = "."
    pardir = ".."
    extsep = "."
    pathsep = ":"
    error = OSError
    PathLike = _os.PathLike
    devnull = "/dev/null"

    def __init__(self, world):
        self._w = world
        self.path = PathFacade(world)
        self.environ = world.env

    def urandom(self, n):
        return self._w.urandom(n)

    def getcwd(self):
        return self._w.cwd

    def getenv(self, key, default=None):
        return self._w.env.get(key, default)

    def fspath(self, path):
        return _os.fspath(path)

    def replace(self, src, dst):
        return self._w.replace(src, dst)

    rename = replace

    def remove(self, path):
        return self._w.remove(path)

    unlink = remove

    def makedirs(self, path, mode=0o777, exist_ok=False):
        return self._w.makedirs(path, mode, exist_ok)

    def mkdir(self, path, mode=0o777):
        return self._w.makedirs(path, mode, False)

    def fsync(self, fd):
        return None

    def stat(self, path, *a, **k):
        return self._w.stat(path)

    lstat = stat

    def access(self, path, mode=0):
        w = self._w
        p = w.abspath(path)
        if p not in w.files and p not in w.dirs:
            return False
        if mode & _os.R_OK and p in w.unreadable:
            return False
        if mode & _os.W_OK and p in w.unwritable:
            return False
        return True

    F_OK, R_OK, W_OK, X_OK = _os.F_OK, _os.R_OK, _os.W_OK, _os.X_OK

    def listdir(self, path="."):
        w = self._w
        p = w.abspath(path)
        if p not in w.dirs:
            raise __import__("sim.world", fromlist=["oserror"]).oserror("ENOENT" if p not in w.files else "ENOTDIR", path)
        pre = p.rstrip("/") + "/"
        names = {q[len(pre):].split("/")[0] for q in list(w.files) + list(w.dirs) if q.startswith(pre) and q != p}
        return sorted(names)

    def getpid(self):
        return 4242

    def strerror(self, code):
        return _os.strerror(code)

    def __getattr__(self, name):
        raise SeamGap("os." + name)


class SocketFacade:
    gaierror = _socket.gaierror
    herror = _socket.herror
    error = _socket.error
    timeout = _socket.timeout
    AF_INET = _socket.AF_INET

    def __init__(self, world):
        self._w = world

    def gethostbyname(self, name):
        return self._w.gethostbyname(name)

    def inet_aton(self, s):
        return _socket.inet_aton(s)

    def __getattr__(self, name):
        raise SeamGap("socket." + name)


# --------------------------------------------------------------------------- installation

_installed = None
_saved = {}
_real = {}


def _lib_modules():
    return [m for n, m in list(sys.modules.items()) if m is not None and (n == "cincoconfig" or n.startswith("cincoconfig."))]


def _lib_frame_on_stack():
    f = sys._getframe(2)
    while f is not None:
        name = f.f_globals.get("__name__", "")
        if name == "cincoconfig" or name.startswith("cincoconfig."):
            return "%s:%d" % (f.f_code.co_filename, f.f_lineno)
        if name.startswith("importlib"):
            return None
        f = f.f_back
    return None


def _guard(name, fn):
    def guarded(*a, **k):
        w = _installed
        if w is not None:
            where = _lib_frame_on_stack()
            if where:
                w.escapes.append((name, where))
                raise SeamGap("escape: real %s reached from %s" % (name, where))
        return fn(*a, **k)
    guarded.__name__ = getattr(fn, "__name__", name)
    guarded._cincosim_guard = True
    return guarded


_GUARDED = [(builtins, "open"), (_os, "urandom"), (_os, "open"), (_os, "replace"), (_os, "rename"),
            (_os, "remove"), (_os, "unlink"), (_os, "mkdir"), (_os, "makedirs"),
            (_socket, "gethostbyname"), (_socket, "getaddrinfo")]


def install(world):
    """Route every seam of the library into ``world`` and arm the escape detector."""
    global _installed
    if _installed is not None:
        uninstall()
    osf, sockf = OsFacade(world), SocketFacade(world)
    for mod in _lib_modules():
        d = mod.__dict__
        _saved[mod.__name__] = {k: d.get(k, _MISSING) for k in ("open", "os", "socket")}
        d["open"] = world.open
        d["os"] = osf
        d["socket"] = sockf
    _saved["__key"] = Config.DEFAULT_CINCOKEY_FILEPATH
    Config.DEFAULT_CINCOKEY_FILEPATH = World.DEFAULT_KEY
    for owner, name in _GUARDED:
        fn = getattr(owner, name)
        if getattr(fn, "_cincosim_guard", False):
            continue
        _real[(owner, name)] = fn
        setattr(owner, name, _guard(owner.__name__ + "." + name, fn))
    _installed = world
    return world


_MISSING = object()


def uninstall():
    global _installed
    for mod in _lib_modules():
        saved = _saved.get(mod.__name__)
        if not saved:
            continue
        for k, v in saved.items():
            if v is _MISSING:
                mod.__dict__.pop(k, None)
            else:
                mod.__dict__[k] = v
    if "__key" in _saved:
        Config.DEFAULT_CINCOKEY_FILEPATH = _saved["__key"]
    for (owner, name), fn in _real.items():
        setattr(owner, name, fn)
    _real.clear()
    _saved.clear()
    _installed = None


def switch(world):
    """Point the already-installed seams at another world (used for clones in fault enumeration)."""
    install(world)


def reset_process_state():
    """What a process restart resets besides Python objects: the format registry."""
    try:
        ConfigFormat._ConfigFormat__registry.clear()
        ConfigFormat._ConfigFormat__initialized = False
    except AttributeError:  # a changed tree may have renamed them; nothing to reset then
        pass
