"""Reference model of the built-in field kinds, written from the class docstrings and documented
parameters (DESIGN Appendix A), *not* from the implementation.

``norm(spec, raw, ctx)`` -> OK(value) | REJ | UNSPEC   what a configuration must expose after accepting raw
``holds(spec, value, ctx)`` -> True | False | None     the invariant a stored value satisfies (None: no claim)

``spec`` is a leaf node of a schema descriptor: {"kind": K, "o": {options}, ...}.
``ctx`` provides the simulated world (file existence, DNS) -- the model evaluates the same
simulated platform the library sees.
"""
import math
import re
from ipaddress import IPv4Address, IPv4Network
from urllib.parse import urlparse

from . import refcrypto
from .codec import canon


class OK:
    __slots__ = ("v",)

    def __init__(self, v):
        self.v = v

    def __repr__(self):
        return "OK(%r)" % (self.v,)


REJ = "REJ"
UNSPEC = "UNSPEC"


class Digest:
    """Expected value of a challenge field that was given the plaintext ``pt`` (salt is fresh, so
    the expectation is a predicate, see ``matches``)."""

    def __init__(self, pt, alg):
        self.pt = pt
        self.alg = alg

    def __repr__(self):
        return "Digest(%r,%s)" % (self.pt, self.alg)


class TList:
    """Expected typed list (ListProxy) of expected items."""

    def __init__(self, items):
        self.items = items

    def __repr__(self):
        return "TList(%r)" % (self.items,)


class TDict:
    def __init__(self, pairs):
        self.pairs = pairs

    def __repr__(self):
        return "TDict(%r)" % (self.pairs,)


TRUE_VALUES = ("t", "true", "1", "on", "yes", "y")
FALSE_VALUES = ("f", "false", "0", "off", "no", "n")
HOSTNAME_REGEX = re.compile(r"^[a-zA-Z0-9][a-zA-Z0-9.\-]+$")
NETBIOS_REGEX = re.compile(r"^[\w!@#$%^()\-'{}\.~]{1,15}$")
LOG_LEVELS = ["debug", "info", "warning", "error", "critical"]
APP_MODES = ["development", "production"]

STRINGY = ("string", "loglevel", "appmode", "ipv4addr", "ipv4net", "hostname", "filename", "include", "url")


def _string_opts(spec):
    o = dict(spec.get("o", {}))
    k = spec["kind"]
    if k == "loglevel":
        o.setdefault("transform_case", "lower")
        o.setdefault("transform_strip", True)
        o["choices"] = o.get("levels") or LOG_LEVELS
    elif k == "appmode":
        o.setdefault("transform_case", "lower")
        o.setdefault("transform_strip", True)
        o["choices"] = o.get("modes") or APP_MODES
    return o


def _string_rules(o, raw):
    if type(raw) is not str:
        return UNSPEC if isinstance(raw, str) else REJ
    v = raw
    strip = o.get("transform_strip")
    case = o.get("transform_case")
    if strip and isinstance(strip, str) and case and any(c.isalpha() for c in strip):
        return UNSPEC
    if strip:
        v = v.strip(strip) if isinstance(strip, str) else v.strip()
    if o.get("required") and not v:
        return REJ
    if case:
        v = v.lower() if case.lower() == "lower" else v.upper()
    if o.get("min_len") is not None and len(v) < o["min_len"]:
        return REJ
    if o.get("max_len") is not None and len(v) > o["max_len"]:
        return REJ
    if o.get("regex") and not re.match(o["regex"], v):
        return REJ
    if o.get("choices") and v not in o["choices"]:
        return REJ
    return OK(v)


def _norm_number(spec, raw, typ):
    o = spec.get("o", {})
    if isinstance(raw, bool) or not isinstance(raw, (str, int, float)):
        return REJ
    if type(raw) not in (str, int, float):
        return UNSPEC
    if isinstance(raw, str) and "_" in raw:
        return UNSPEC
    try:
        n = typ(raw)
    except (ValueError, TypeError, OverflowError):
        return REJ
    if typ is float and math.isnan(n) and (o.get("min") is not None or o.get("max") is not None):
        return UNSPEC
    if o.get("min") is not None and n < o["min"]:
        return REJ
    if o.get("max") is not None and n > o["max"]:
        return REJ
    return OK(n)


def validator_rejects(spec, value, ctx=None):
    """The harness validators from the menu (sim.schema) are pure predicates; the model knows them."""
    vid = spec.get("validator")
    if not vid or value is None:
        return False
    if vid in ("neg", "negk"):
        return _neg_predicate(value)
    if vid.startswith(("ge:", "le:")):
        # a validator that reads a sibling field of the same configuration ("hi must not be below lo"): judged against the
        # sibling's value as it is right now (the scenario provides it)
        live = getattr(ctx, "live", None)
        sib = live(vid[3:]) if live else None
        if isinstance(sib, int) and isinstance(value, int) and not isinstance(sib, bool):
            return value < sib if vid.startswith("ge:") else value > sib
    return False


def _neg_predicate(v):
    if isinstance(v, bool):
        return False
    if isinstance(v, int):
        return v % 7 == 3
    if isinstance(v, float):
        return v == 0.5
    if isinstance(v, str):
        return "Z" in v
    if isinstance(v, bytes):
        return b"Z" in v
    if isinstance(v, (list, tuple, dict)):
        return len(v) == 3
    return False


def norm(spec, raw, ctx):
    r = _norm(spec, raw, ctx)
    if isinstance(r, OK) and validator_rejects(spec, _concrete(r.v), ctx):
        return REJ
    if isinstance(r, OK) and spec.get("validator") == "tag" and r.v is not None:
        return OK(tag_transform(r.v))
    return r


def tag_transform(v):
    """The 'tag' validator from the harness menu rewrites what it accepts (validators return the value to store); it is
    deliberately not idempotent, so that validating a stored item a second time is observable."""
    if isinstance(v, str):
        return "p:" + v
    if isinstance(v, int) and not isinstance(v, bool):
        return v + 1000
    return v


def _concrete(v):
    """Expected values may be predicates (Digest/TList/TDict); the 'neg' validator is only attached to
    kinds whose expectation is concrete, except typed containers where it looks at the length."""
    if isinstance(v, TList):
        return [None] * len(v.items)
    if isinstance(v, TDict):
        return {_k(a): None for a, _ in v.pairs}      # entries after key normalisation
    if isinstance(v, Digest):
        return None
    return v


def _norm(spec, raw, ctx):
    k = spec["kind"]
    o = spec.get("o", {})
    if raw is None:
        return REJ if o.get("required") else OK(None)
    if k in ("string", "loglevel", "appmode"):
        return _string_rules(_string_opts(spec), raw)
    if k == "int":
        return _norm_number(spec, raw, int)
    if k == "port":
        s = {"kind": "int", "o": dict(o)}
        s["o"].setdefault("min", 1)
        s["o"].setdefault("max", 65535)
        return _norm_number(s, raw, int)
    if k == "float":
        return _norm_number(spec, raw, float)
    if k in ("bool", "featureflag"):
        if isinstance(raw, bool):
            return OK(raw)
        if isinstance(raw, (int, float)):
            return OK(bool(raw))
        if type(raw) is str:
            low = raw.lower()
            if low in TRUE_VALUES:
                return OK(True)
            if low in FALSE_VALUES:
                return OK(False)
            return REJ
        return UNSPEC if isinstance(raw, str) else REJ
    if k == "ipv4addr":
        r = _string_rules(_string_opts(spec), raw)
        if not isinstance(r, OK):
            return r
        try:
            return OK(str(IPv4Address(r.v)))
        except ValueError:
            return REJ
    if k == "ipv4net":
        r = _string_rules(_string_opts(spec), raw)
        if not isinstance(r, OK):
            return r
        try:
            net = IPv4Network(r.v)
        except ValueError:
            return REJ
        if o.get("min_prefix_len") is not None and net.prefixlen < o["min_prefix_len"]:
            return REJ
        if o.get("max_prefix_len") is not None and net.prefixlen > o["max_prefix_len"]:
            return REJ
        return OK(str(net))
    if k == "hostname":
        r = _string_rules(_string_opts(spec), raw)
        if not isinstance(r, OK):
            return r
        v = r.v
        try:
            addr = IPv4Address(v)
        except ValueError:
            addr = None
        if addr is not None:
            return OK(str(addr)) if o.get("allow_ipv4", True) else REJ
        if o.get("resolve"):
            if "\x00" in v or not v.isascii() or not v:
                return UNSPEC
            ans = None if ctx.dns_failing else next((a for k_, a in ctx.world.dns.items() if k_.lower() == v.lower()), None)
            return OK(ans) if ans else REJ
        if HOSTNAME_REGEX.match(v) or NETBIOS_REGEX.match(v):
            return OK(v)
        return REJ
    if k in ("filename", "include"):
        r = _string_rules(_string_opts(spec), raw)
        if not isinstance(r, OK):
            return r
        v = r.v
        if not v:
            return OK(v)
        if "\x00" in v:
            return UNSPEC
        w = ctx.world
        if not v.startswith("/") and o.get("startdir"):
            v = w.abspath(w.expanduser(o["startdir"].rstrip("/") + "/" + v if not o["startdir"].endswith("/") else o["startdir"] + v))
        ex = "file" if k == "include" else o.get("exists")
        p = w.abspath(v)
        is_file, is_dir = p in w.files, p in w.dirs
        if ex is True and not (is_file or is_dir):
            return REJ
        if ex is False and (is_file or is_dir):
            return REJ
        if ex == "dir" and not is_dir:
            return REJ
        if ex == "file" and not is_file:
            return REJ
        return OK(v)
    if k == "url":
        r = _string_rules(_string_opts(spec), raw)
        if not isinstance(r, OK):
            return r
        try:
            u = urlparse(r.v)
            if not u.scheme:
                return REJ
        except ValueError:
            return REJ
        return OK(r.v)
    if k == "bytes":
        if type(raw) is bytes:
            return OK(raw)
        if type(raw) is str:
            try:
                return OK(raw.encode())
            except UnicodeEncodeError:
                return REJ
        if isinstance(raw, (bytes, str)):
            return UNSPEC
        return REJ
    if k == "secure":
        return OK(raw) if type(raw) is str else UNSPEC
    if k == "challenge":
        alg = o.get("hash_algorithm", "sha256").lower()
        if type(raw) is str:
            try:
                return OK(Digest(raw.encode(), alg))
            except UnicodeEncodeError:
                return REJ
        if type(raw) is bytes:
            return OK(Digest(raw, alg))
        if type(raw).__name__ == "DigestValue":
            return OK(raw)
        if isinstance(raw, (str, bytes)):
            return UNSPEC
        return REJ
    if k == "any":
        return OK(raw)
    if k == "list":
        if not isinstance(raw, (list, tuple)):
            return REJ
        if type(raw) not in (list, tuple) and type(raw).__name__ != "ListProxy":
            return UNSPEC
        if o.get("required") and not raw:
            return REJ
        item = spec.get("item")
        if item is None or item["kind"] == "any":
            return OK(raw)
        if item["kind"] in ("schema", "configtype"):
            return UNSPEC
        out = []
        unspec = False
        for x in raw:
            r = norm(item, x, ctx)
            if r == REJ:
                return REJ
            if r == UNSPEC:
                unspec = True
            else:
                out.append(r.v)
        return UNSPEC if unspec else OK(TList(out))
    if k == "dict":
        if not isinstance(raw, dict):
            return REJ
        if type(raw) is not dict and type(raw).__name__ != "DictProxy":
            return UNSPEC
        if o.get("required") and not raw:
            return REJ
        kf, vf = spec.get("kf"), spec.get("vf")
        if kf is None and vf is None:
            return OK(raw)
        kf = kf or {"kind": "any", "o": {}}
        vf = vf or {"kind": "any", "o": {}}
        pairs = []
        unspec = False
        for a, b in raw.items():
            ra, rb = norm(kf, a, ctx), norm(vf, b, ctx)
            if ra == REJ or rb == REJ:
                return REJ
            if ra == UNSPEC or rb == UNSPEC:
                unspec = True
                continue
            try:
                hash(ra.v)
            except TypeError:
                return UNSPEC
            pairs.append((ra.v, rb.v))
        return UNSPEC if unspec else OK(TDict(pairs))
    return UNSPEC


def matches(exp, act):
    """Does the actual value equal the expected one (type-exact, NaN-aware; Digest/TList/TDict are
    predicates)?"""
    if isinstance(exp, Digest):
        if type(act).__name__ != "DigestValue":
            return False
        name = getattr(act.algorithm, "__name__", "")
        if exp.alg not in name:
            return False
        if len(act.salt) != refcrypto.DIGEST_SIZE[exp.alg]:
            return False
        return refcrypto.salted_hash(exp.alg, act.salt, exp.pt) == act.digest
    if isinstance(exp, TList):
        if type(act).__name__ != "ListProxy" or len(act) != len(exp.items):
            return False
        return all(matches(e, a) for e, a in zip(exp.items, list.__iter__(act)))
    if isinstance(exp, TDict):
        if type(act).__name__ != "DictProxy":
            return False
        want = {}
        for a, b in exp.pairs:
            want[_k(a)] = b   # later pairs override earlier ones, like dict construction
        got = {_k(a): b for a, b in dict.items(act)}
        if set(want) != set(got):
            return False
        return all(matches(want[k], got[k]) for k in want)
    return canon(exp) == canon(act)


def _k(v):
    return repr(canon(v))


def holds(spec, value, ctx):
    """Invariant of a stored value.  True / False / None (no claim)."""
    if value is None:
        return True
    k = spec["kind"]
    if k in ("any", "secure"):
        return True
    if k == "challenge":
        return type(value).__name__ == "DigestValue"
    if k in ("filename", "include"):
        # existence holds at acceptance only; shape: a str (absolute when startdir is given)
        if type(value) is not str:
            return False
        if value and spec.get("o", {}).get("startdir") and not value.startswith("/"):
            return False
        return True
    if k == "hostname" and spec.get("o", {}).get("resolve"):
        if type(value) is not str:
            return False
        try:
            IPv4Address(value)
            return True
        except ValueError:
            return False
    if k == "list":
        item = spec.get("item")
        if item is None or item["kind"] == "any":
            return isinstance(value, (list, tuple))
        if type(value).__name__ != "ListProxy":
            return False
        if spec.get("o", {}).get("required") and not value:
            return None   # emptied in place afterwards: the statement speaks of item constraints
        if item["kind"] in ("schema", "configtype"):
            return None   # items are configurations: walked by the caller
        res = True
        for x in list.__iter__(value):
            h = holds(item, x, ctx) if x is not None else (not item.get("o", {}).get("required"))
            if h is False:
                return False
            if h is None:
                res = None
        return res
    if k == "dict":
        kf, vf = spec.get("kf"), spec.get("vf")
        if kf is None and vf is None:
            return isinstance(value, dict)
        if type(value).__name__ != "DictProxy":
            return False
        res = True
        for a, b in dict.items(value):
            for s, x in ((kf, a), (vf, b)):
                if s is None:
                    continue
                h = holds(s, x, ctx) if x is not None else (not s.get("o", {}).get("required"))
                if h is False:
                    return False
                if h is None:
                    res = None
        return res
    r = norm(spec, value, ctx)
    if r == UNSPEC:
        return None
    if r == REJ:
        return False
    return canon(r.v) == canon(value)
