"""Seeded batches over 16 processes, aggregation, evidence."""
import faulthandler
import hashlib
import json
import multiprocessing
import os
import subprocess
import sys
import time
from collections import Counter
from concurrent.futures import ProcessPoolExecutor, as_completed

from . import engine

SEED_STRIDE = 10_000_019


def run_seed(base_seed, index):
    return base_seed * SEED_STRIDE + index


def _shape(out):
    h = hashlib.sha256(repr((tuple(out.kinds), tuple(sorted(out.fired)))).encode()).digest()
    return int.from_bytes(h[:8], "big")


def _worker(args):
    prop, base_seed, start, count, known, avoid, nsamples, hang_s = args
    from .registry import scenario_for
    faulthandler.dump_traceback_later(hang_s, exit=True)
    scn = scenario_for(prop)
    agg = {"runs": 0, "steps": 0, "relevant_runs": 0, "relevant_ops": 0, "checks": 0, "probes": Counter(), "fired": Counter(),
           "kinds": Counter(), "shapes": set(), "fps": set(), "violations": [], "known_hits": Counter(),
           "harness_errors": [], "samples": [], "draws": 0, "journal": 0, "fault_runs": 0}
    seen_sigs = set()
    for i in range(start, start + count):
        seed = run_seed(base_seed, i)
        out = engine.execute(scn, seed, known=known, avoid=avoid)
        agg["runs"] += 1
        agg["steps"] += out.steps
        agg["checks"] += out.checks
        agg["probes"].update(out.probes)
        agg["fired"].update(out.fired)
        agg["kinds"].update(out.kinds)
        agg["draws"] += out.draws
        agg["journal"] += out.journal_len
        if out.fired:
            agg["fault_runs"] += 1
        if out.relevant:
            agg["relevant_runs"] += 1
            agg["relevant_ops"] += out.relevant
            agg["shapes"].add(_shape(out))
        agg["fps"].add(int(out.fingerprint[:16], 16))
        if out.harness_error:
            if len(agg["harness_errors"]) < 3:
                agg["harness_errors"].append({"seed": seed, "error": out.harness_error, "case": out.case(scn)})
        elif out.known_hit:
            agg["known_hits"][out.known_hit] += 1
        elif out.violation:
            sig = out.violation["signature"]
            if sig not in seen_sigs and len(seen_sigs) < 8:
                seen_sigs.add(sig)
                agg["violations"].append({"case": out.case(scn), "violation": out.violation})
            agg.setdefault("violation_count", Counter())[sig] += 1
        elif len(agg["samples"]) < nsamples and out.relevant:
            agg["samples"].append(out.case(scn))
    faulthandler.cancel_dump_traceback_later()
    return agg


def _merge(total, part):
    for k, v in part.items():
        if isinstance(v, Counter):
            total.setdefault(k, Counter()).update(v)
        elif isinstance(v, set):
            total.setdefault(k, set()).update(v)
        elif isinstance(v, list):
            total.setdefault(k, []).extend(v)
        elif isinstance(v, (int, float)):
            total[k] = total.get(k, 0) + v
    return total


def run_batch(prop, base_seed, nruns, workers=None, known=frozenset(), avoid=frozenset(), wall_cap_s=None,
              chunk=None, hang_s=600):
    """Run ``nruns`` seeded executions of the property's scenario.  ``wall_cap_s`` stops *submitting*
    new chunks once exceeded (runs themselves never read a clock)."""
    workers = workers or min(16, os.cpu_count() or 1)
    chunk = chunk or max(10, min(400, nruns // (workers * 6) or 1))
    t0 = time.time()
    total = {}
    tasks = [(prop, base_seed, s, min(chunk, nruns - s), known, avoid, 2, hang_s) for s in range(0, nruns, chunk)]
    broken = None
    if workers == 1:
        for t in tasks:
            if wall_cap_s and time.time() - t0 > wall_cap_s:
                total["capped"] = True
                break
            _merge(total, _worker(t))
    else:
        ctx = multiprocessing.get_context("fork")
        with ProcessPoolExecutor(max_workers=workers, mp_context=ctx) as pool:
            pending = iter(tasks)
            futs = set()
            for _ in range(workers * 2):
                t = next(pending, None)
                if t is None:
                    break
                futs.add(pool.submit(_worker, t))
            while futs:
                done = next(as_completed(futs))
                futs.discard(done)
                try:
                    _merge(total, done.result())
                except Exception as exc:  # BrokenProcessPool, worker hang killed by faulthandler, ...
                    broken = "worker failed: %r" % (exc,)
                    break
                if wall_cap_s and time.time() - t0 > wall_cap_s:
                    total["capped"] = True
                    continue
                t = next(pending, None)
                if t is not None:
                    futs.add(pool.submit(_worker, t))
            if broken:
                for f in futs:
                    f.cancel()
    total["wall_s"] = time.time() - t0
    total["workers"] = workers
    if broken:
        total.setdefault("harness_errors", []).append({"seed": None, "error": broken})
    for k in ("runs", "steps", "relevant_runs", "relevant_ops", "checks", "draws", "journal", "fault_runs"):
        total.setdefault(k, 0)
    for k in ("probes", "fired", "kinds", "known_hits", "violation_count"):
        total.setdefault(k, Counter())
    for k in ("shapes", "fps"):
        total.setdefault(k, set())
    for k in ("violations", "harness_errors", "samples"):
        total.setdefault(k, [])
    return total


def replay_in_fresh_process(path, hashseed="321"):
    """-> (reproduced: bool, output).  Runs ``check replay`` in a new interpreter."""
    env = dict(os.environ)
    env["PYTHONHASHSEED"] = hashseed
    cmd = [sys.executable, "-c",
           "import sys; sys.path.insert(0, %r); from sim.cli import main; sys.exit(main(['replay', %r]))"
           % (engine.VERIF, path)]
    p = subprocess.run(cmd, env=env, capture_output=True, text=True, timeout=300)
    return p.returncode == 1 and "VIOLATION" in p.stdout, p.stdout + p.stderr


def fingerprints_in_fresh_process(prop, base_seed, count, hashseed):
    env = dict(os.environ)
    env["PYTHONHASHSEED"] = str(hashseed)
    cmd = [sys.executable, "-c",
           "import sys; sys.path.insert(0, %r); from sim.cli import main; sys.exit(main(['fingerprints', %r, %r, %r]))"
           % (engine.VERIF, prop, str(base_seed), str(count))]
    p = subprocess.run(cmd, env=env, capture_output=True, text=True, timeout=900)
    if p.returncode != 0:
        raise RuntimeError("fingerprint subprocess failed: %s" % (p.stdout + p.stderr)[-2000:])
    return json.loads(p.stdout.strip().splitlines()[-1])
