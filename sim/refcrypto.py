"""Reference ciphers and hashes used as oracles: written directly on the `cryptography` and
`hashlib` primitives, independent of cincoconfig.encryption."""
import hashlib
from itertools import cycle

from cryptography.hazmat.primitives import padding
from cryptography.hazmat.primitives.ciphers import Cipher, algorithms, modes


def xor(data, key):
    if not key:
        raise ValueError("empty key")
    return bytes(a ^ b for a, b in zip(data, cycle(key)))


def aes_cbc_encrypt(key, iv, plaintext):
    padder = padding.PKCS7(128).padder()
    padded = padder.update(plaintext) + padder.finalize()
    enc = Cipher(algorithms.AES(key), modes.CBC(iv)).encryptor()
    return enc.update(padded) + enc.finalize()


def aes_cbc_decrypt(key, iv, body):
    """-> plaintext, or raises ValueError when the padding is invalid / body is not block aligned."""
    dec = Cipher(algorithms.AES(key), modes.CBC(iv)).decryptor()
    padded = dec.update(body) + dec.finalize()
    unpadder = padding.PKCS7(128).unpadder()
    return unpadder.update(padded) + unpadder.finalize()


def salted_hash(alg, salt, plaintext):
    return hashlib.new(alg, salt + plaintext).digest()


DIGEST_SIZE = {"md5": 16, "sha1": 20, "sha224": 28, "sha256": 32, "sha384": 48, "sha512": 64}
