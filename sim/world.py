"""The simulated world: file system, entropy, environment, DNS, fault plan and journal.

Everything that outlives a configuration object lives here.  All state is plain Python data so a
World can be cloned (``copy.deepcopy``-free: see ``clone``) for fault enumeration.
"""
import errno as _errno
import hashlib
import os as _real_os
import posixpath
import socket as _real_socket


class SeamGap(BaseException):
    """The library asked the simulated platform for something the simulator does not model.

    Derives from BaseException so that the library's own ``except Exception`` cannot swallow it;
    the runner reports it as a harness error (exit 2), never as a violation and never silently.
    """


ERRNO = {name: getattr(_errno, name) for name in (
    "ENOENT", "EACCES", "EIO", "EISDIR", "ENOTDIR", "EMFILE", "ENOSPC", "EROFS", "EEXIST", "EPERM",
    "ENAMETOOLONG", "EINVAL", "EBADF")}


def oserror(name, path=None):
    code = ERRNO[name]
    if path is None:
        return OSError(code, _real_os.strerror(code))
    return OSError(code, _real_os.strerror(code), path)


class SimFile:
    """File object handed to the library.  Implements what the library (and plausible rewrites of
    it) use: read, write, flush, close, context manager, both binary and text mode."""

    def __init__(self, world, path, mode, data):
        self._w = world
        self.name = path
        self.mode = mode
        self._binary = "b" in mode
        self._readable = mode[0] == "r" or "+" in mode
        self._writable = mode[0] in "wax" or "+" in mode
        self._pos = len(data) if mode[0] == "a" else 0
        self._data = data  # the live bytearray stored in world.files
        self.closed = False

    # -- reading
    def read(self, n=-1):
        if self.closed:
            raise ValueError("I/O operation on closed file.")
        if not self._readable:
            import io
            raise io.UnsupportedOperation("not readable")
        self._w._seam("read", self.name)
        buf = bytes(self._data[self._pos:] if n is None or n < 0 else self._data[self._pos:self._pos + n])
        self._pos += len(buf)
        self._w.journal_add("read", self.name, len(buf))
        return buf if self._binary else buf.decode("utf-8")

    def readable(self):
        return self._readable

    def writable(self):
        return self._writable

    # -- writing
    def write(self, data):
        if self.closed:
            raise ValueError("I/O operation on closed file.")
        if not self._writable:
            import io
            raise io.UnsupportedOperation("not writable")
        if self._binary:
            if isinstance(data, str):
                raise TypeError("a bytes-like object is required, not 'str'")
            raw = bytes(data)
        else:
            if not isinstance(data, str):
                raise TypeError("write() argument must be str, not %s" % type(data).__name__)
            raw = data.encode("utf-8")
        fault = self._w._seam("write", self.name)
        if fault is not None:
            # torn write: a prefix reaches the file, then the error
            cut = int(fault.get("arg", 0))
            cut = max(0, min(len(raw), cut))
            self._put(raw[:cut])
            self._w.journal_add("write", self.name, cut, "torn")
            raise oserror(fault.get("errno", "ENOSPC"), self.name)
        self._put(raw)
        self._w.journal_add("write", self.name, len(raw))
        return len(data)

    def _put(self, raw):
        end = self._pos + len(raw)
        self._data[self._pos:end] = raw
        self._pos = end
        self._w.touch(self.name)

    def flush(self):
        if self.closed:
            raise ValueError("I/O operation on closed file.")

    def fileno(self):
        raise SeamGap("file.fileno()")

    def seek(self, pos, whence=0):
        if whence == 0:
            self._pos = pos
        elif whence == 1:
            self._pos += pos
        else:
            self._pos = len(self._data) + pos
        return self._pos

    def tell(self):
        return self._pos

    def truncate(self, size=None):
        size = self._pos if size is None else size
        del self._data[size:]
        self._w.journal_add("truncate", self.name, size)
        return size

    def close(self):
        if not self.closed:
            self.closed = True
            self._w.journal_add("close", self.name)

    def __enter__(self):
        return self

    def __exit__(self, *exc):
        self.close()
        return False

    def __iter__(self):
        data = self.read()
        return iter(data.splitlines(True))


class SimEnv(dict):
    """os.environ of the current session."""

    def copy(self):
        return SimEnv(self)


class World:
    HOME = "/home/sim"
    CWD = "/work"
    DEFAULT_KEY = "/home/sim/.cincokey"

    def __init__(self, seed=0):
        self.seed = int(seed)
        self.cwd = self.CWD        # the working directory may change during a run (C18: relative start directories)
        self.files = {}            # abs path -> bytearray
        self.dirs = {"/", "/work", "/home", "/home/sim", "/keys", "/data", "/inc"}
        self.unreadable = set()    # file paths that cannot be opened for reading
        self.unwritable = set()    # files / dirs that cannot be written / created in
        self.env = SimEnv()
        self.dns = {}
        self.journal = []          # (seq, step, kind, path, a, b)
        self.seq = 0
        self.step = -1
        self.draws = []            # (seq, step, n, bytes)
        self.armed = []            # fault dicts for the current operation
        self.fired = []            # (step, fault) for faults that actually fired
        self._counts = {}
        self.escapes = []
        self.rerouted = {}         # real function name -> calls served by the world (library reached it outside the module globals)
        self.ticks = 0             # logical clock for modification times: one tick per modification
        # how much simulated time passes between two modifications (per run): rewrites within one second / millisecond happen
        self.tick_ns = (1, 1_000_000, 400_000_000, 1_000_000_000, 2_000_000_000)[(self.seed * 2654435761 >> 7) % 5]
        self.mtimes = {}           # abs path -> tick of the last modification

    # ------------------------------------------------------------------ cloning
    def clone(self):
        w = World(self.seed)
        w.files = {p: bytearray(b) for p, b in self.files.items()}
        w.dirs = set(self.dirs)
        w.unreadable = set(self.unreadable)
        w.unwritable = set(self.unwritable)
        w.env = SimEnv(self.env)
        w.cwd = self.cwd
        w.dns = dict(self.dns)
        w.seq = self.seq
        w.step = self.step
        w.draws = list(self.draws)
        w.journal = list(self.journal)
        w.ticks = self.ticks
        w.tick_ns = self.tick_ns
        w.mtimes = dict(self.mtimes)
        return w

    def touch(self, p):
        self.ticks += 1
        self.mtimes[p] = self.ticks

    # ------------------------------------------------------------------ journal / faults
    def journal_add(self, kind, path=None, a=None, b=None):
        self.seq += 1
        self.journal.append((self.seq, self.step, kind, path, a, b))

    def begin_step(self, step, faults=()):
        self.step = step
        self.armed = [dict(f) for f in faults]
        self._counts = {}

    def end_step(self):
        self.armed = []
        self._counts = {}

    def _seam(self, seam, path=None, sub=None):
        """Count a seam call inside the current operation and return the armed fault that applies
        to it (if any).  A fault is {seam, nth (1-based, per seam[+sub] within the operation),
        errno/arg, path (optional filter)}."""
        names = {seam} if sub is None else {seam, seam + ":" + sub}
        for name in names:
            for pk in {None, path}:
                self._counts[(name, pk)] = self._counts.get((name, pk), 0) + 1
        for f in self.armed:
            if f.get("seam") not in names:
                continue
            pk = f.get("path")
            if pk is not None and pk != path:
                continue
            want = f.get("nth", 1)
            if want == "*" or want == self._counts[(f["seam"], pk)]:
                if want != "*":
                    self.armed.remove(f)
                self.fired.append((self.step, dict(f)))
                self.journal_add("fault", path, seam, f.get("errno") or f.get("kind"))
                return f
        return None

    def step_journal(self, step=None):
        step = self.step if step is None else step
        return [e for e in self.journal if e[1] == step]

    # ------------------------------------------------------------------ path helpers
    def abspath(self, path):
        if not isinstance(path, str):
            raise TypeError("expected str, bytes or os.PathLike object, not %s" % type(path).__name__)
        if not posixpath.isabs(path):
            path = posixpath.join(self.cwd, path)
        return posixpath.normpath(path)

    def expanduser(self, path):
        if not isinstance(path, str):
            raise TypeError("expected str, bytes or os.PathLike object, not %s" % type(path).__name__)
        if path == "~":
            return self.HOME
        if path.startswith("~/"):
            return self.HOME + path[1:]
        return path

    def exists(self, path, _journal=True):
        try:
            p = self.abspath(path)
        except TypeError:
            return False
        if _journal:
            self.journal_add("exists", p)
        return p in self.files or p in self.dirs

    def isfile(self, path):
        try:
            p = self.abspath(path)
        except TypeError:
            return False
        self.journal_add("isfile", p)
        return p in self.files

    def isdir(self, path):
        try:
            p = self.abspath(path)
        except TypeError:
            return False
        self.journal_add("isdir", p)
        return p in self.dirs

    # ------------------------------------------------------------------ file system
    def open(self, path, mode="r", *args, **kwargs):
        if not isinstance(path, str):
            if isinstance(path, (int, bytes)) and not isinstance(path, bool):
                raise SeamGap("open(%r)" % (path,))
            raise TypeError("expected str, bytes or os.PathLike object, not %s" % type(path).__name__)
        if "\x00" in path:
            raise ValueError("embedded null byte")
        p = self.abspath(path)
        kind = mode[0] if mode else "r"
        if kind not in "rwax":
            raise ValueError("invalid mode: %r" % mode)
        rw = "r" if kind == "r" and "+" not in mode else "w"
        self.journal_add("open", p, mode)
        fault = self._seam("open", p, rw)
        if fault is not None:
            raise oserror(fault.get("errno", "EIO"), path)
        parent = posixpath.dirname(p)
        if rw == "r":
            if p in self.dirs:
                raise oserror("EISDIR", path)
            if p not in self.files:
                if parent not in self.dirs and parent in self.files:
                    raise oserror("ENOTDIR", path)
                raise oserror("ENOENT", path)
            if p in self.unreadable:
                raise oserror("EACCES", path)
            return SimFile(self, p, mode, self.files[p])
        # write side
        if p in self.dirs:
            raise oserror("EISDIR", path)
        if parent not in self.dirs:
            raise oserror("ENOTDIR" if parent in self.files else "ENOENT", path)
        if p in self.files:
            if kind == "x":
                raise oserror("EEXIST", path)
            if p in self.unwritable:
                raise oserror("EACCES", path)
        else:
            if kind == "r":
                raise oserror("ENOENT", path)
            if parent in self.unwritable:
                raise oserror("EACCES", path)
            self.files[p] = bytearray()
            self.journal_add("create", p)
            self.touch(p)
        if kind == "w":
            if len(self.files[p]):
                self.journal_add("truncate", p, 0)
                self.touch(p)
            del self.files[p][:]
        return SimFile(self, p, mode, self.files[p])

    def replace(self, src, dst):
        s, d = self.abspath(src), self.abspath(dst)
        self.journal_add("replace", s, d)
        fault = self._seam("replace", d)
        if fault is not None:
            raise oserror(fault.get("errno", "EIO"), src)
        if s not in self.files:
            raise oserror("ENOENT", src)
        if d in self.dirs:
            raise oserror("EISDIR", dst)
        if posixpath.dirname(d) not in self.dirs:
            raise oserror("ENOENT", dst)
        if posixpath.dirname(d) in self.unwritable:
            raise oserror("EACCES", dst)
        self.files[d] = self.files.pop(s)
        self.touch(d)

    def remove(self, path):
        p = self.abspath(path)
        self.journal_add("remove", p)
        if p in self.dirs:
            raise oserror("EISDIR", path)
        if p not in self.files:
            raise oserror("ENOENT", path)
        if posixpath.dirname(p) in self.unwritable:
            raise oserror("EACCES", path)
        del self.files[p]

    def makedirs(self, path, mode=0o777, exist_ok=False):
        p = self.abspath(path)
        self.journal_add("makedirs", p)
        if p in self.dirs:
            if exist_ok:
                return
            raise oserror("EEXIST", path)
        if p in self.files:
            raise oserror("EEXIST", path)
        parts = p.strip("/").split("/")
        cur = ""
        for part in parts:
            cur += "/" + part
            if cur in self.files:
                raise oserror("ENOTDIR", path)
            self.dirs.add(cur)

    def stat(self, path):
        import stat as _stat
        p = self.abspath(path)
        self.journal_add("stat", p)
        def result(mode, size):
            ns = 1_700_000_000 * 10 ** 9 + self.mtimes.get(p, 0) * self.tick_ns
            t, ft = ns // 10 ** 9, ns / 1e9
            ino = 1000 + sum(p.encode()) % 100000
            return _real_os.stat_result((mode, ino, 1, 1, 0, 0, size, t, t, t, ft, ft, ft, ns, ns, ns))
        if p in self.files:
            return result(_stat.S_IFREG | (0o000 if p in self.unreadable else 0o600), len(self.files[p]))
        if p in self.dirs:
            return result(_stat.S_IFDIR | (0o500 if p in self.unwritable else 0o700), 4096)
        parent = posixpath.dirname(p)
        raise oserror("ENOTDIR" if parent in self.files else "ENOENT", path)

    def getsize(self, path):
        p = self.abspath(path)
        if p in self.files:
            return len(self.files[p])
        if p in self.dirs:
            return 4096
        raise oserror("ENOENT", path)

    # ----- direct (external actor / oracle) access: no journal, no faults
    def peek(self, path):
        p = self.abspath(path)
        b = self.files.get(p)
        return None if b is None else bytes(b)

    def poke(self, path, data):
        p = self.abspath(path)
        self.dirs.add(posixpath.dirname(p))
        if p not in self.files or bytes(self.files[p]) != bytes(data):
            self.touch(p)
        self.files[p] = bytearray(data)

    def unlink_quiet(self, path):
        self.files.pop(self.abspath(path), None)

    # ------------------------------------------------------------------ entropy
    def urandom(self, n):
        if not isinstance(n, int):
            raise TypeError("an integer is required")
        if n < 0:
            raise ValueError("negative argument not allowed")
        idx = len(self.draws)
        out = b""
        ctr = 0
        while len(out) < n:
            out += hashlib.sha256(b"cincosim-entropy:%d:%d:%d" % (self.seed, idx, ctr)).digest()
            ctr += 1
        out = out[:n]
        if n == 32:
            # every 32-byte string is a legal key: in some runs the generated ones begin and end with bytes that text
            # handling likes to drop (white space, NUL)
            shape = (self.seed * 2654435761 >> 11) % 6
            if shape == 0:
                out = b"\n" + out[1:31] + b" "
            elif shape == 1:
                out = b"\x00" + out[1:31] + b"\x00"
        self.seq += 1
        self.draws.append((self.seq, self.step, n, out))
        self.journal.append((self.seq, self.step, "urandom", None, n, idx))
        return out

    def step_draws(self, step=None):
        step = self.step if step is None else step
        return [d for d in self.draws if d[1] == step]

    # ------------------------------------------------------------------ DNS
    def gethostbyname(self, name):
        self.journal_add("dns", None, name if isinstance(name, str) else repr(name))
        fault = self._seam("dns", None)
        if fault is not None:
            raise _real_socket.gaierror(-3, "Temporary failure in name resolution")
        if not isinstance(name, str):
            raise TypeError("gethostbyname() argument 1 must be str, bytes or bytearray")
        if "\x00" in name:
            raise ValueError("embedded null character")
        for known, addr in self.dns.items():       # host names are case-insensitive
            if known.lower() == name.lower():
                return addr
        raise _real_socket.gaierror(-2, "Name or service not known")
