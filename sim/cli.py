"""./check <property> [--tier quick|thorough] | replay <file> | selftest ... | fingerprints ..."""
import argparse
import json
import os
import sys
import time

from . import batch, engine
from .registry import TABLE, level_for, runs_for, scenario_for

VERIF = engine.VERIF
REAL_VS_STUB = {
    "real_code": ["every line of cincoconfig (from the current working tree)", "json", "PyYAML", "bson", "pickle",
                  "xml.etree/minidom", "cryptography (AES-CBC, PKCS7)", "hashlib", "base64", "ipaddress", "re",
                  "urllib.parse", "argparse"],
    "stubs": ["file system (SimFS, in memory)", "os.urandom (SimEntropy, seeded sha256 stream)",
              "os.environ (SimEnv)", "socket.gethostbyname (SimDNS)", "home directory / cwd / default key path"],
    "absent_in_library": ["threads", "clocks/timers", "network other than one DNS call"],
}


def load_known():
    path = os.path.join(VERIF, "known_findings.json")
    if not os.path.exists(path):
        return {"findings": [], "fixed": []}
    with open(path) as fp:
        return json.load(fp)


def replay_case(doc):
    scn = scenario_for(doc["property"])
    return scn, engine.execute(scn, doc["seed"], doc["header"], doc["ops"], keep_events=True)


def cmd_replay(path, verbose=True):
    doc = engine.load_replay(path)
    scn, out = replay_case(doc)
    if out.harness_error:
        print("HARNESS-ERROR replay %s: %s" % (path, out.harness_error))
        return 2
    want = doc.get("violation")
    if out.violation and (not want or (out.violation["oracle"] == want["oracle"]
                                       and out.violation["signature"] == want["signature"])):
        if verbose:
            print("replayed %s: step %s: %s" % (path, out.violation["step"], out.violation["message"]))
            print("signature=%s" % out.violation["signature"])
        print("VIOLATION property=%s replay=%s" % (doc["property"], path))
        return 1
    print("did not reproduce: %s (got %r)" % (path, out.violation))
    return 3


def cmd_fingerprints(prop, base_seed, count):
    scn = scenario_for(prop)
    fps = []
    for i in range(int(count)):
        out = engine.execute(scn, batch.run_seed(int(base_seed), i))
        fps.append(out.fingerprint[:16] + ("!" if out.harness_error else ""))
    print(json.dumps(fps))
    return 0


def determinism_selftest(prop, base_seed, count, workers=(1, 16)):
    """Same seeds twice in-process, in fresh interpreters under two other PYTHONHASHSEEDs, and in
    pool workers; all fingerprints must agree.  -> (ok, detail)"""
    scn = scenario_for(prop)
    a = [engine.execute(scn, batch.run_seed(base_seed, i)).fingerprint[:16] for i in range(count)]
    b = [engine.execute(scn, batch.run_seed(base_seed, i)).fingerprint[:16] for i in range(count)]
    if a != b:
        bad = [i for i in range(count) if a[i] != b[i]]
        return False, "in-process rerun differs at run indices %r" % bad[:5]
    for hs in ("1", "77"):
        c = batch.fingerprints_in_fresh_process(prop, base_seed, count, hs)
        c = [x.rstrip("!") for x in c]
        if c != a:
            bad = [i for i in range(count) if a[i] != c[i]]
            return False, "fresh interpreter PYTHONHASHSEED=%s differs at run indices %r" % (hs, bad[:5])
    sets = []
    for w in workers:
        t = batch.run_batch(prop, base_seed, count, workers=w)
        sets.append(t["fps"])
    want = {int(x, 16) for x in a}
    for w, s in zip(workers, sets):
        if s != want:
            return False, "fingerprint set differs with %d workers (%d vs %d)" % (w, len(s), len(want))
    return True, "%d seeds x (2 in-process + 2 fresh interpreters with other hash seeds + pools of %s workers) identical" % (
        count, "/".join(map(str, workers)))


def check_property(prop, tier, base_seed, runs=None, workers=None, wall_cap=None, write_evidence=True):
    t0 = time.time()
    os.environ["CINCOSIM_TIER"] = tier
    scn = scenario_for(prop)
    known_doc = load_known()
    open_known = [f for f in known_doc.get("findings", []) if f["property"] == prop and f.get("status", "open") == "open"]
    known_sigs = frozenset(f["signature"] for f in open_known)
    avoid = frozenset(t for f in open_known for t in f.get("avoid", []))
    known_lines = []
    exit_code = 0
    # 1. witnesses of open known findings
    for f in open_known:
        wpath = os.path.join(VERIF, f["witness"])
        doc = engine.load_replay(wpath)
        _, out = replay_case(doc)
        if out.harness_error:
            print("HARNESS-ERROR witness %s: %s" % (f["witness"], out.harness_error))
            exit_code = 2
        elif out.violation and out.violation["signature"] == f["signature"]:
            line = "KNOWN-FINDING: property=%s %s [signature %s, witness %s]" % (prop, f["description"], f["signature"], f["witness"])
            print(line)
            known_lines.append(line)
        else:
            print("note: known finding %s no longer reproduces from its witness (got %r)" % (
                f["signature"], out.violation and out.violation["signature"]))
    # 2. exploration
    nruns = runs or runs_for(prop, tier)
    if wall_cap is None:
        wall_cap = 150 if tier == "quick" else 3000
    total = batch.run_batch(prop, base_seed, nruns, workers=workers, known=known_sigs, avoid=avoid, wall_cap_s=wall_cap)
    det = None
    if tier == "thorough":
        ok, detail = determinism_selftest(prop, base_seed, 300)
        det = {"ok": ok, "detail": detail}
        if not ok:
            print("HARNESS-ERROR determinism self-test failed: %s" % detail)
            exit_code = 2
    # 2b. reach probes that must not be stuck at zero over a thorough run (DESIGN 8.3)
    if tier == "thorough" and not runs:
        from .registry import REQUIRED_PROBES
        missing = [p for p in REQUIRED_PROBES.get(prop, ()) if not any(k.startswith(p) and v > 0 for k, v in total["probes"].items())]
        if missing:
            print("HARNESS-ERROR reach probes never hit in a thorough run: %s" % ", ".join(missing))
            exit_code = 2
    # 3. violations: minimise, write replay, confirm in a fresh process
    reported = []
    unreproduced = False
    for v in total["violations"]:
        if any(r["signature"] == v["violation"]["signature"] for r in reported):
            continue
        if len(reported) >= 5:
            break
        case, used = engine.shrink(scn, v["case"], v["violation"])
        out = engine.execute(scn, case["seed"], case["header"], case["ops"])
        viol = out.violation or v["violation"]
        path = engine.write_replay(case, viol, fingerprint=out.fingerprint)
        ok, text = batch.replay_in_fresh_process(path)
        if not ok:
            print("HARNESS-ERROR violation did not reproduce in a fresh process: %s\n%s" % (path, text[-1500:]))
            unreproduced = True
            continue
        print("violation: %s" % viol["message"])
        print("  signature=%s step=%s ops=%d (shrunk from %d with %d executions)" % (
            viol["signature"], viol["step"], len(case["ops"]), len(v["case"]["ops"]), used))
        print("VIOLATION property=%s replay=%s" % (prop, path))
        reported.append({"signature": viol["signature"], "replay": path, "message": viol["message"]})
        exit_code = max(exit_code, 1) if exit_code != 2 else 2
    if unreproduced and not reported:
        exit_code = 2       # nothing that was seen could be confirmed: a harness problem, not a verdict
    for he in total["harness_errors"][:3]:
        print("HARNESS-ERROR seed=%s: %s" % (he.get("seed"), he["error"]))
        # a library that breaks the property often breaks the harness' own reads as well (a configuration that can no
        # longer be enumerated...): violations that were minimised and reproduced in a fresh process stay the verdict
        if not reported:
            exit_code = 2
    if total["runs"] == 0:
        print("HARNESS-ERROR no runs executed")
        exit_code = 2
    wall = time.time() - t0
    if write_evidence:
        write_evidence_file(prop, tier, base_seed, total, reported, known_lines, det, wall, scn)
    print("%s %s: runs=%d relevant=%d ops=%d checks=%d distinct_shapes=%d distinct_histories=%d faults_fired=%d "
          "known_hits=%d violations=%d wall=%.1fs (%.0f runs/h)" % (
              prop, tier, total["runs"], total["relevant_runs"], total["steps"], total["checks"], len(total["shapes"]),
              len(total["fps"]), sum(total["fired"].values()), sum(total["known_hits"].values()),
              len(reported), wall, total["runs"] / max(total["wall_s"], 1e-6) * 3600))
    return exit_code


def write_evidence_file(prop, tier, base_seed, total, reported, known_lines, det, wall, scn):
    samples = total["samples"][:3]
    doc = {
        "property_id": prop,
        "tier": tier,
        "seed": base_seed,
        "level": level_for(prop),
        "coverage": {
            "evaluations": (sum(v for k, v in total["probes"].items() if k.startswith("faulted-save:")) or total["runs"]) if level_for(prop) == "fault_enumeration" else total["runs"],
            "distinct_nontrivial": len(total["shapes"]),
            "rule": (("FAULT ENUMERATION: one evaluation = one save re-executed with exactly one serialisation step failing (every field "
                      "encoding, key-file open, encryption and the formatter, found by a fault-free dry run on a cloned world) or one natural "
                      "failure, for each sampled (state, format, destination holding a previous save); exhaustive over the fault points of "
                      "each sampled pair, sampled over states. Non-trivial/distinct as below. " if level_for(prop) == "fault_enumeration" else "") +
                     "one evaluation = one seeded simulated run (a generated history of operations, external edits, "
                     "faults and restarts executed against the real library on the simulated platform). A run is "
                     "non-trivial when at least one operation the property speaks about executed and its oracle was "
                     "evaluated; distinct = distinct (operation-kind sequence incl. outcome classes, set of fault kinds "
                     "that fired), counted as a set of 64-bit hashes over the whole batch"),
            "samples": samples or ["no sample kept"],
            "simulated_runs": total["runs"],
            "exhaustive": False,
            "runs_with_relevant_operation": total["relevant_runs"],
            "relevant_operations": total["relevant_ops"],
            "oracle_evaluations": total["checks"],
            "operations_executed": total["steps"],
            "distinct_histories_by_event_log_fingerprint": len(total["fps"]),
            "fault_kinds_fired": dict(total["fired"]),
            "runs_with_a_fault_fired": total["fault_runs"],
            "reach_probes": dict(sorted(total["probes"].items())),
            "operation_mix": dict(total["kinds"]),
            "entropy_draws": total["draws"],
            "seam_journal_entries": total["journal"],
            "runs_per_hour": round(total["runs"] / max(total["wall_s"], 1e-6) * 3600),
            "seeds": "run seed = VERIF_SEED*%d + i for i in [0, %d)" % (batch.SEED_STRIDE, total["runs"]),
            "simulated_time": "not applicable: the library has no clock; logical steps (operations) are reported instead",
            "workers": total["workers"],
            "capped_by_wall_clock": bool(total.get("capped")),
            "known_finding_hits_suppressed": dict(total["known_hits"]),
            "known_findings_printed": known_lines,
            "violations_reported": reported,
            "determinism_selftest": det,
            "components": REAL_VS_STUB,
        },
        "assumptions": getattr(scn, "assumptions", []) + [
            "sampling, not proof: bounded histories, small alphabets (DESIGN 8.2)",
            "the reference model/oracles of sim/ are correct (trusted base listed in DESIGN 3.4)",
        ],
        "wall_s": round(wall, 2),
        "violations": len(reported),
    }
    os.makedirs(os.path.join(VERIF, "evidence"), exist_ok=True)
    path = os.path.join(VERIF, "evidence", "%s.json" % prop)
    with open(path, "w") as fp:
        json.dump(doc, fp, indent=1, default=str)
        fp.write("\n")


def main(argv):
    if argv and argv[0] == "replay":
        return cmd_replay(argv[1])
    if argv and argv[0] == "fingerprints":
        return cmd_fingerprints(argv[1], argv[2], argv[3])
    if argv and argv[0] == "selftest":
        what = argv[1] if len(argv) > 1 else "determinism"
        props = argv[2:] or sorted(TABLE)
        n = int(os.environ.get("SELFTEST_SEEDS", "200"))
        rc = 0
        if what == "determinism":
            for prop in props:
                ok, detail = determinism_selftest(prop, int(os.environ.get("VERIF_SEED", "0")), n)
                print("%s determinism %s: %s" % (prop, "ok" if ok else "FAILED", detail))
                rc = rc or (0 if ok else 2)
        return rc
    ap = argparse.ArgumentParser(prog="check")
    ap.add_argument("property")
    ap.add_argument("--tier", default=os.environ.get("VERIF_TIER", "quick"), choices=["quick", "thorough"])
    ap.add_argument("--runs", type=int)
    ap.add_argument("--workers", type=int)
    ap.add_argument("--seed", type=int, default=int(os.environ.get("VERIF_SEED", "0") or 0))
    ap.add_argument("--wall-cap", type=float)
    ap.add_argument("--no-evidence", action="store_true")
    a = ap.parse_args(argv)
    if a.property not in TABLE:
        print("unknown property %s" % a.property)
        return 2
    return check_property(a.property, a.tier, a.seed, a.runs, a.workers, a.wall_cap, not a.no_evidence)


if __name__ == "__main__":
    sys.exit(main(sys.argv[1:]))
