"""Property id -> scenario, budgets, level."""
import importlib

# property -> (module, attribute, level, quick runs, thorough runs)
TABLE = {
    "C01": ("sim.scenarios.state", "C01", "exploration", 25000, 600000),
    "C02": ("sim.scenarios.persist", "C02", "exploration", 20000, 500000),
    "C03": ("sim.scenarios.persist", "C03", "exploration", 20000, 500000),
    "C06": ("sim.scenarios.c06", "SCENARIO", "exploration", 30000, 800000),
    "C07": ("sim.scenarios.keyfile", "SCENARIO", "exploration", 150000, 3000000),
    "C08": ("sim.scenarios.crypto", "C08", "exploration", 80000, 1500000),
    "C09": ("sim.scenarios.crypto", "C09", "exploration", 80000, 2000000),
    "C10": ("sim.scenarios.persist", "C10", "exploration", 20000, 500000),
    "C11": ("sim.scenarios.validation", "SCENARIO", "exploration", 30000, 600000),
    "C12": ("sim.scenarios.state", "C12", "exploration", 30000, 800000),
    "C15": ("sim.scenarios.state", "C15", "exploration", 30000, 600000),
    "C13": ("sim.scenarios.isolation", "SCENARIO", "exploration", 12000, 300000),
    "C14": ("sim.scenarios.environment", "SCENARIO", "exploration", 30000, 600000),
    "C16": ("sim.scenarios.naming", "SCENARIO", "exploration", 30000, 700000),
    "C17": ("sim.scenarios.containers", "SCENARIO", "exploration", 100000, 2500000),
    "C18": ("sim.scenarios.includes", "SCENARIO", "exploration", 25000, 500000),
    "C19": ("sim.scenarios.savecrash", "SCENARIO", "fault_enumeration", 6000, 150000),
}

_cache = {}


def scenario_for(prop):
    if prop not in _cache:
        mod, attr = TABLE[prop][0], TABLE[prop][1]
        _cache[prop] = getattr(importlib.import_module(mod), attr)
    return _cache[prop]


def level_for(prop):
    return TABLE[prop][2]


def runs_for(prop, tier):
    return TABLE[prop][3 if tier == "quick" else 4]
