"""Property id -> scenario, budgets, level."""
import importlib

# property -> (module, attribute, level, quick runs, thorough runs)
TABLE = {
    "C01": ("sim.scenarios.c01", "SCENARIO", "exploration", 25000, 600000),
    "C02": ("sim.scenarios.persist", "C02", "exploration", 20000, 500000),
    "C03": ("sim.scenarios.persist", "C03", "exploration", 20000, 500000),
    "C06": ("sim.scenarios.c06", "SCENARIO", "exploration", 30000, 800000),
    "C07": ("sim.scenarios.keyfile", "SCENARIO", "exploration", 150000, 3000000),
    "C08": ("sim.scenarios.crypto", "C08", "exploration", 80000, 1500000),
    "C09": ("sim.scenarios.crypto", "C09", "exploration", 80000, 2000000),
    "C10": ("sim.scenarios.persist", "C10", "exploration", 20000, 500000),
    "C11": ("sim.scenarios.validation", "SCENARIO", "exploration", 30000, 600000),
    "C12": ("sim.scenarios.state", "C12", "exploration", 30000, 800000),
    "C15": ("sim.scenarios.state", "C15", "exploration", 30000, 600000),
    "C13": ("sim.scenarios.isolation", "SCENARIO", "exploration", 12000, 300000),
    "C14": ("sim.scenarios.environment", "SCENARIO", "exploration", 30000, 600000),
    "C16": ("sim.scenarios.naming", "SCENARIO", "exploration", 30000, 700000),
    "C17": ("sim.scenarios.containers", "SCENARIO", "exploration", 100000, 2500000),
    "C18": ("sim.scenarios.includes", "SCENARIO", "exploration", 25000, 500000),
    "C19": ("sim.scenarios.savecrash", "SCENARIO", "fault_enumeration", 6000, 150000),
}

# rare-but-important conditions each thorough run must reach (prefix match on the probe name)
REQUIRED_PROBES = {
    "C01": ["set-accepted", "set-rejected", "load-tree-accepted", "loads-", "list-single-accepted", "dict-single-accepted", "dynamic-field-set",
            "container-assigned-from-other-field", "cmdline-override:applied", "dns-failure-during-assignment", "assign-map-accepted",
            "schema-grown:leaf", "declared-over-existing-undeclared-key", "set-accepted:key-older-than-declaration"],
    "C02": ["saved:json", "saved:yaml", "saved:bson", "saved:xml", "saved:pickle", "loaded:json", "loaded:yaml", "loaded:bson", "loaded:xml",
            "loaded:pickle", "restart"],
    "C03": ["saved-with-secrets", "secret-decrypts-with-model-key", "secret-recovered-in-new-session", "set-keyfile:root", "set-keyfile:sub",
            "sub-configuration-adopted-from-other-tree:with-secret", "built-from-saved-sections:with-secret"],
    "C06": ["set-rejected", "assign-map-rejected", "list-single-rejected", "list-item-rejected-as-a-whole", "dict-single-rejected", "unparsable-doc:cut", "unparsable-doc:wrong_root",
            "torn-doc-still-parses", "load-io-failure:open-err", "include-unusable:missing", "include-unusable:torn", "include-unusable:open-err",
            "schema-grown:sub-schema", "set-rejected:through-undeclared-level"],
    "C07": ["key-generated-in-run", "nested-enter", "enter:short:attempt2", "enter:valid:fault", "outermost-exit", "xor-full-key-recovered",
            "encrypt-closed", "restart"],
    "C08": ["aes-checked", "xor-checked:longer-than-key", "roundtrip:later-session", "decrypt-under-other-key:aes", "tamper:short", "tamper:unaligned",
            "tamper:aligned-cut:ref-rejects", "tamper:bad-base64", "tamper:method-unknown"],
    "C09": ["assigned:md5", "assigned:sha512", "challenge-ok", "challenge-rejected", "reloaded:", "handwritten:", "second-config-default-salt-fresh"],
    "C10": ["sensitive-slot-masked", "sensitive-slot-masked:list-item", "schema-evolved"],
    "C11": ["validate-returned", "validate-raised", "valid-state-with-disabled-violations", "validator-fault-inside-", "validator-ran-on-final-data:schema",
            "list-append-config-returned", "retry-rejected-config-item", "collect-agrees:invalid"],
    "C12": ["callable-default-evaluated", "set-accepted", "set-rejected", "ctor-accepted", "assign-map-accepted", "defined-status-by-deep-dotted-path"],
    "C13": ["deep-mutation", "deep-mutation:untyped", "include-loaded:cfg0", "include-loaded:cfg1", "b2-compared", "dynamic-field-set",
            "container-assigned-from-"],
    "C14": ["variable-in-effect:construct", "variable-in-effect:load", "assignment-over-variable", "load-with-bound-key",
            "construction-with-invalid-variable", "load-applied:empty-variable", "restart"],
    "C15": ["rejection:path-checked", "rejection:type-only", "set-config-list:rejected", "loads-json-rejected", "loads-xml-rejected"],
    "C16": ["names-checked", "parser-options-checked", "cmdline-applied", "cmdline-empty"],
    "C17": ["list-extend:iter", "list-extend:proxy-other-cfg", "list-slice-set:gen", "typed-result-validates:add", "typed-result-validates:copy"],
    "C18": ["include-merged:2", "include-in-nested-scope", "include-unusable:torn", "combine", "chdir", "schema-grown:sub-schema",
            "schema-grown:include-field"],
    "C19": ["faulted-save:encode-fault", "faulted-save:encrypt-fault", "faulted-save:key-open-fault", "faulted-save:formatter-fault",
            "faulted-save:unknown-format", "faulted-save:key-short", "faulted-save:out-of-domain-value", "observed:write-phase-fault"],
}

_cache = {}


def scenario_for(prop):
    if prop not in _cache:
        mod, attr = TABLE[prop][0], TABLE[prop][1]
        _cache[prop] = getattr(importlib.import_module(mod), attr)
    return _cache[prop]


def level_for(prop):
    return TABLE[prop][2]


def runs_for(prop, tier):
    return TABLE[prop][3 if tier == "quick" else 4]
