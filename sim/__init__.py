"""cincosim -- deterministic simulation with fault injection for ameily/cincoconfig.

See /verif/DESIGN.md.  Nothing in this package reads a real clock, the real environment, the real
file system (except to load the library under test and to write replay/evidence files) or real
entropy: every such access the library makes goes through sim.world.World.
"""
