#!/bin/sh
# Offline setup: nothing is downloaded or built.  Verifies that /venv/bin/python imports the library
# from /repo's working tree and that the simulator is deterministic on a small sample.
cd "$(dirname "$0")" || exit 2
/venv/bin/python -c "import sys; sys.path.insert(0,'/repo'); import cincoconfig, yaml, bson, cryptography; print('cincoconfig', cincoconfig.__version__, cincoconfig.__file__)" || exit 2
mkdir -p evidence replays
SELFTEST_SEEDS=${SELFTEST_SEEDS:-40} ./check selftest determinism || exit 2
echo setup ok
