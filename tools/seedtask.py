#!/venv/bin/python
"""tools/seedtask.py <round> [kind]   -- prepare scratch worktrees /tmp/seed<round>-<property> with a TASK.md for fresh
sub-agents (kind 'break': two changes that break the property; the task text contains only the property and the list
of ideas already recorded under seeded/, nothing else from /verif)."""
import json
import os
import subprocess
import sys

HERE = os.path.dirname(os.path.dirname(os.path.abspath(__file__)))
rnd = sys.argv[1]
PROPS = ["C01", "C02", "C03", "C06", "C07", "C08", "C09", "C10", "C11", "C12", "C13", "C14", "C15", "C16", "C17", "C18", "C19"]

TMPL = '''You are working ONLY inside the scratch git worktree {d} of the pure-Python library ameily/cincoconfig (schema-driven configuration: typed validating fields, nested configs, JSON/XML/YAML/BSON/pickle load/save, encrypted and hashed secret fields). Do not read, list or modify anything under /verif or /repo, and do not create files outside {d}.

PROPERTY {id}: {title}
Statement: {statement}
Quantifier: {quant}

TASK: produce TWO independent source changes to the library (files under {d}/cincoconfig/ only) that each BREAK this property while
 (1) the package still imports and
 (2) the existing test-suite still passes: `cd {d} && /venv/bin/python -m pytest -q -p no:cacheprovider`. Baseline on the unmodified tree: 477 passed, 1 failed (tests/test_schema.py::TestSchema::test_setattr_field fails on the unmodified tree too; ignore exactly that one). Do not edit the tests.

The changes must be REALISTIC (the kind of bug a refactor, an optimisation or a well-meant 'simplification' introduces) and SUBTLE: each must need something specific to manifest - a particular multi-step sequence of operations, a fault at a particular point (an OSError from open(), a validator that raises, a torn or tampered file, a restart/new session), an unusual but legal input or parameter combination, a particular state of the objects, or two cooperating sites that each look fine alone. Do NOT produce changes that ordinary first use would expose at once. The two changes should break the property in different ways (different code sites / different clauses of the statement).

For each change i in (1, 2) write, under {d}/mutants/ :
  m{{i}}.diff     - `git diff` of the worktree with ONLY that change applied (must apply with `git apply` to a clean checkout of HEAD)
  m{{i}}_demo.py  - standalone script; run as `cd {d}/mutants && PYTHONPATH={d} /venv/bin/python m{{i}}_demo.py`; it must exit 0 on the unmodified tree and exit 1 (printing what went wrong) with the change applied. It should demonstrate the property violation through the public API (it may use a temporary directory for files and should not touch ~/.cincokey: pass key_filename explicitly).
  m{{i}}.md       - 3-6 lines: what is changed, which clause of the property it breaks, why the existing tests do not notice, and exactly what it needs in order to manifest.
Verify each demo BOTH ways (clean tree -> exit 0, with the change -> exit 1) and run the test-suite with each change applied. When you are done, leave the worktree at HEAD state (`git -C {d} checkout -- cincoconfig`) with only the new mutants/ directory added. Reply with the list of files written and a one-line summary of each change.'''

EXTRA = '''

This is a later round: the obvious sites are used up. Look for changes of these kinds: (a) an ERROR PATH - an except/finally block, a rollback, a cleanup after a failure, the state left behind by an operation that raised half-way; (b) a HISTORY dependence - something that only shows in a second session / after a restart of the process / on the second use of an object / after a file written earlier is read back; (c) a Python pitfall - a mutable default argument, `is` versus `==`, bool being an int, str versus bytes, dict ordering, a generator consumed twice, a late-binding closure, shallow versus deep copy, `or` on a falsy but valid value; (d) a platform interaction - relative versus absolute paths, `~`, the working directory, an environment variable, file permissions, an existing versus a missing file or directory; (e) TWO COOPERATING SITES in different modules that each look harmless alone. Do not use `git stash` (the stash is shared between worktrees); to test on the clean tree use `git diff > {d}/mutants/x.diff; git checkout -- cincoconfig; ...; git apply`.
'''

EXTRA5 = '''

This is a late round: many sites are used up (see the list above). Look for changes of these kinds: (a) FEATURE INTERACTION - the property's mechanism meeting another feature of the library: environment variables, command-line overrides, include files, feature flags, config types (make_type) with their own key file, virtual fields and instance methods, dynamic schemas, friendly field names, sensitive masks, `validate=False` loads, `asdict`/`to_tree` options, `reset_value`, `is_value_defined`, stubs; (b) a FORMAT-specific detail - how BSON, XML (type attributes, root tag), YAML (root key, tags, anchors), pickle or JSON (pretty / compact) encode or decode one particular kind of value (empty containers, None, booleans versus integers, bytes, non-ASCII text, nested lists, very large or negative numbers, floats like 1e22 / -0.0 / nan); (c) the SHAPE of the schema - deep nesting, a list of lists, a dict of lists, a config type nested in a config type, a schema reused in two places, a field object reused in two schemas, an empty sub-schema, keys that differ only in case or in '_' versus '-'; (d) an API SPELLING the tests do not use - item versus attribute access, dotted paths, negative indices, slices, keyword versus positional arguments, iterating while mutating, `in`, `len`, `==`, `copy`; (e) a change in cincoconfig/support.py, cincoconfig/stubs.py, a formats module or a field base class whose effect on THIS property only shows indirectly. Do not use `git stash` (the stash is shared between worktrees); to test on the clean tree use `git diff > {d}/mutants/x.diff; git checkout -- cincoconfig; ...; git apply`.
'''
EXTRA6 = '''

This is a very late round: ten ideas per property are used up (see the list above) - read it carefully and stay away from those sites and mechanisms. Look for changes of these kinds: (a) the ORDER OF STEPS INSIDE ONE CALL - validate/convert/store/mark/notify reordered, a value stored before a later check of the same call can still fail, a copy taken after instead of before a mutation, a lookup done before instead of after a normalisation; (b) OBJECT LIFE CYCLE - copy.copy / copy.deepcopy / pickle of a Config, Schema, field or proxy object, `==` / hash of ConfigType instances, a Config used after its schema gained a field, a field object shared by two schemas, a ConfigType subclassed or instantiated twice, garbage left in a long-lived object by an earlier call; (c) DEFAULTS - callable defaults, defaults that are Config / DigestValue / proxy objects, defaults of nested or list-item schemas, the difference between "no default", `None` and a falsy default (0, "", [], False); (d) NUMBERS AND TEXT - int versus bool versus float, huge or negative numbers, "-0", " 7 ", "1_000", "0x10", "1e3", NaN / inf, Unicode digits, case folding, combining characters, surrogate escapes, empty strings, NUL, very long values, leading/trailing white space; (e) FLAGS AND OPTIONS rarely combined - `validate=False`, `collect_errors=True`, `virtual=True`, `sensitive_mask=""`, `pretty=False`, `root_key=` / `root_tag=`, `ignore=`, `required=True` together with a default, `dynamic=True` together with declared fields; (f) a change in a module FAR from the property's main code (cincoconfig/formats/*, support.py, stubs.py, abc/base classes, __init__ re-exports, version shims) whose effect on THIS property only shows indirectly. Do not use `git stash` (the stash is shared between worktrees); to test on the clean tree use `git diff > {d}/mutants/x.diff; git checkout -- cincoconfig; ...; git apply`.
'''
if rnd.isdigit() and int(rnd) >= 5:
    EXTRA = EXTRA5
if rnd.isdigit() and int(rnd) >= 6:
    EXTRA = EXTRA6

props = {}
for line in open(os.path.join(HERE, "properties.jsonl")):
    p = json.loads(line)
    props[p["id"]] = p
for pid in PROPS:
    d = "/tmp/seed%s-%s" % (rnd, pid)
    if not os.path.isdir(d):
        subprocess.run(["git", "-C", "/repo", "worktree", "add", "-q", "--detach", d, "HEAD"], check=True)
    p = props[pid]
    t = TMPL.format(d=d, id=pid, title=p["title"], statement=p["statement"], quant=p["quantifier"]["text"])
    taken = []
    for name in sorted(os.listdir(os.path.join(HERE, "seeded"))):
        m = os.path.join(HERE, "seeded", name, "README.md")
        if name.startswith(pid + "-") and os.path.exists(m):
            first = [x.strip() for x in open(m).read().splitlines() if x.strip()]
            taken.append("- " + " ".join(first)[:330])
    t += "\n\nIDEAS ALREADY TAKEN (do NOT repeat these or close variants; use different code sites, different modules where possible, and different clauses of the property):\n" + "\n".join(taken)
    t += EXTRA.format(d=d)
    open(os.path.join(d, "TASK.md"), "w").write(t)
print("prepared", len(PROPS), "worktrees /tmp/seed%s-*" % rnd)
