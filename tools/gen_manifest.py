#!/venv/bin/python
"""Regenerate /verif/MANIFEST.json from sim/registry.py and the per-property texts below."""
import json
import os
import sys

HERE = os.path.dirname(os.path.dirname(os.path.abspath(__file__)))
sys.path.insert(0, HERE)
from sim.registry import TABLE  # noqa: E402
from tools.manifest_texts import NOT_APPLICABLE, TEXTS  # noqa: E402

ALL = ["C%02d" % i for i in range(1, 21)]


def main():
    checks = []
    for prop in ALL:
        if prop not in TABLE or prop not in TEXTS:
            continue
        t = TEXTS[prop]
        checks.append({
            "property_id": prop,
            "quick_cmd": "./check %s --tier quick" % prop,
            "thorough_cmd": "./check %s --tier thorough" % prop,
            "evidence_file": "/verif/evidence/%s.json" % prop,
            "replay_cmd_template": "./check replay {path}",
            "engine": "cincosim",
            "level_claimed": {"category": TABLE[prop][2], "text": t["level_text"], "design_ref": t["design_ref"]},
            "level_note": t["level_note"],
            "technique": t["technique"],
        })
    na = []
    for prop in ALL:
        if any(c["property_id"] == prop for c in checks):
            continue
        na.append({"property_id": prop, "reason": NOT_APPLICABLE.get(prop, "check not built yet (work in progress)")})
    doc = {
        "version": 1,
        "setup_cmd": "./setup.sh",
        "hooks": {
            "guard": "CINCOCONFIG_VERIF",
            "enable": "no source hooks exist: every seam (open, os.path, os.urandom, os.environ, socket) is a module-global "
                      "lookup in cincoconfig, so the simulator injects its fakes into the library's module globals at run "
                      "time (sim/seams.py); /repo is imported unmodified from its working tree",
            "baseline_off_cmd": "cd /repo && /venv/bin/python -m pytest -ra -q -p no:cacheprovider --timeout=900 "
                                "--continue-on-collection-errors",
            "source_commits": [],
            "add_only": True,
        },
        "engines": [{
            "name": "cincosim",
            "path": "/verif/sim",
            "serves_properties": [c["property_id"] for c in checks],
            "kind_free_text": "deterministic simulation with fault injection: seeded generator of operation/fault/"
                              "restart histories executed against the real library on an in-memory platform (file system, "
                              "entropy, environment, DNS), step-wise oracles against a small reference model, ddmin "
                              "minimiser, self-contained JSON replay files",
        }],
        "checks": checks,
        "not_applicable": na,
        "notes": "All checks: exit 0 = held on everything explored (KNOWN-FINDING lines for listed open findings), exit 1 + "
                 "VIOLATION line = violation with minimised replay file confirmed in a fresh interpreter, exit 2 = harness "
                 "error (never a verdict; single runs in which a broken library also broke the harness are listed as HARNESS-ERROR "
                 "lines next to confirmed violations without changing exit 1). VERIF_SEED selects the seed block. See DESIGN.md.",
    }
    with open(os.path.join(HERE, "MANIFEST.json"), "w") as fp:
        json.dump(doc, fp, indent=1)
        fp.write("\n")
    print("wrote MANIFEST.json: %d checks, %d not applicable" % (len(checks), len(na)))


if __name__ == "__main__":
    main()
