#!/bin/sh
# tools/mutcheck.sh <name> <revert:COMMIT | patch:FILE> <property> [runs]
# Build a scratch worktree of /repo HEAD outside /repo and /verif, apply the change (reverting a fix
# commit or applying a patch), run the repository's own tests and the property's check against it
# (CINCO_SRC), print both verdicts, remove the worktree.
name=$1; what=$2; prop=$3; runs=${4:-4000}
wt=/tmp/mut-$name-$$
git -C /repo worktree add -q --detach "$wt" HEAD || exit 2
case "$what" in
  revert:*) git -C "$wt" revert --no-commit "${what#revert:}" >/dev/null 2>&1 || { echo "revert failed"; git -C /repo worktree remove --force "$wt"; exit 2; } ;;
  patch:*)  git -C "$wt" apply "${what#patch:}" || { echo "patch failed"; git -C /repo worktree remove --force "$wt"; exit 2; } ;;
esac
tests=$(cd "$wt" && /venv/bin/python -m pytest -q -p no:cacheprovider 2>&1 | tail -1)
out=$(cd /verif && CINCO_SRC="$wt" ./check "$prop" --runs "$runs" --no-evidence 2>&1)
rc=$?
echo "[$name] tests: $tests"
echo "[$name] check $prop rc=$rc: $(echo "$out" | grep -c '^VIOLATION') violation line(s)"
echo "$out" | grep "signature=" | head -3
git -C /repo worktree remove --force "$wt"
exit 0
