"""Per-property texts for MANIFEST.json (kept next to the generator so they stay in step)."""

TRUSTED = ("Trusted base: CPython, the serialisation libraries' own loaders (json, PyYAML, bson, pickle, xml.etree), the "
           "`cryptography`/`hashlib` primitives used by the reference oracles, the reference model in sim/model.py (written from "
           "the field docstrings; cases the documentation leaves open are answered 'unspecified' and make no claim, DESIGN 8.1) "
           "and the simulator itself (SimFS/SimEntropy/SimEnv/SimDNS model POSIX open/read/write incl. truncate-on-open, not a "
           "real disk). Sampling over seeds, not proof; bounded histories (<= 40 operations, depth <= 3, small alphabets).")

NOT_APPLICABLE = {
    "C04": "pure function of (tree, format, options): no file, clock, environment, randomness, shared state, history or "
           "fault in its statement; deterministic simulation has nothing to schedule or inject (DESIGN 6)",
    "C05": "decided by a single call on (field options, value): no state, history, seam or fault; exactness over the whole "
           "input space is an input-space claim outside this technique family (DESIGN 6)",
    "C20": "generate_stub is a pure function of the schema; the only effect named is the absence of writes to stdout, "
           "which needs a captured stream, not a simulator (DESIGN 6)",
}

SIM = "deterministic simulation with fault injection: "


def T(technique, level_text, ref):
    return {"technique": SIM + technique, "level_text": level_text, "design_ref": ref, "level_note": TRUSTED}


TEXTS = {
    "C01": T("seeded histories over every mutation route (attribute, dotted path, constructor, map/config assigned to a "
             "sub-configuration, tree/document loads in 5 formats, in-place typed list/dict mutators, resets, dynamic fields) with "
             "valid/boundary/invalid/wrongly-typed values and injected validator faults; after every step every readable value "
             "is checked against the reference model (holds), accepted assignments against norm() and a snapshot frame condition; "
             "a share of the runs interleaves schema growth (fields and sub-schemas declared while configurations of different "
             "age are live, undeclared keys later declared over) with assignments on those configurations",
             "Exploration of operation histories on generated schemas against the real classes on the simulated platform (SimFS "
             "for filename fields, SimDNS for resolving hostnames). The property quantifies over unbounded histories and inputs, "
             "so seeded search with a step-wise invariant is the right level; a clean batch is evidence, not proof.",
             "DESIGN.md 5 (C01)"),
    "C02": T("multi-session runs on SimFS: build a valid state, save in one of 5 formats (with options), restart (only the disk "
             "survives), load into a fresh configuration built from fresh schema objects with the same key file, compare canonical "
             "views, mutate, save in another format ...; key files generated in-run from journaled entropy",
             "Exploration of save/restart/load chains over generated schemas (nested, lists of configurations, config types, typed "
             "lists/dicts of bytes/secrets/digests, dynamic fields). Sessions and a disk that outlives them are what the existing "
             "mocks cannot provide; exploration because states and schemas are unbounded.",
             "DESIGN.md 5 (C02)"),
    "C03": T("multi-session runs on SimFS with several key files: secrets at the root, in nested sub-configurations, config types "
             "and list items; key-file (re)assignment at arbitrary points of the history; the bytes that reach the disk are scanned "
             "for plaintext, parsed with the format's own loader, reference-decrypted with the model's key (nearest ancestor), "
             "and the file-system journal of every save/load is compared with the set of key files the model allows",
             "Exploration; the deciding evidence is the simulated disk's journal (which key files were opened or created) and "
             "reference decryption pinning which key was used, across restarts.",
             "DESIGN.md 5 (C03)"),
    "C06": T("snapshots (values, user-defined flags, identity serials of nested configurations) around every failing operation "
             "of the listed kinds in seeded histories: rejected assignments by all routes incl. injected validator faults, rejected "
             "single-element list/dict insertions, torn/garbage/undecodable/wrong-root documents in every format (parse failure "
             "decided by the underlying parser), unreadable files, and includes that are missing, directories, unreadable, "
             "garbage, of another format, torn or failing with EIO; a share of the runs has configurations older than parts of "
             "their (growing) schema and rejected assignments through levels they do not have yet",
             "Exploration over reachable states x failing operations x faults (torn files, open errors, include-file states, "
             "callback faults). Faults carry the property, so the fault-injecting simulator is the right tool.",
             "DESIGN.md 5 (C06)"),
    "C07": T("seeded KeyFile context/encrypt/decrypt histories x external key-file states (absent, valid, other, empty, short, "
             "long, unreadable, unwritable directory) x transient read errors x restarts on SimFS with journaled entropy; step-wise "
             "oracle against a file-content / context-depth model",
             "Exploration of histories against the real KeyFile class on a simulated disk; every step is judged (key in use "
             "recovered from XOR ciphertext / reference AES decrypt, file bytes before/after, entropy draw of a created key, "
             "object scanned for retained key material).",
             "DESIGN.md 5 (C07)"),
    "C08": T("sessions over SimFS key files: every AES value's first 16 bytes must BE the entropy draw journaled for that call "
             "(exact freshness) and the rest reference AES-256-CBC/PKCS7; XOR against key repeated; decrypt by other provider "
             "objects / SecureField in later sessions; other key; external tampering of stored secrets (too short, unaligned, "
             "unknown/missing method, wrong shape, bad base64)",
             "Exploration; the seam-dependent clauses (fresh IV = exact entropy draw, cross-session/provider inversion, tampered "
             "stored values) are what the simulator decides; the pure 'for all keys and byte strings' core is sampled on lengths "
             "0..80, 1000 and non-UTF-8 bytes.",
             "DESIGN.md 5 (C08)"),
    "C09": T("challenge-field histories for all six algorithms: each assignment must journal exactly one entropy draw of "
             "digest_size bytes that IS the stored salt; digest recomputed with hashlib; neighbourhood challenges; repr/str and "
             "every byte written to SimFS scanned; save/restart/load keeps salt and digest byte-identical; hand-written plaintext "
             "documents are hashed on load",
             "Exploration across sessions and formats; salt freshness is checked exactly through the entropy seam rather than "
             "statistically.",
             "DESIGN.md 5 (C09)"),
    "C10": T("at states reached by seeded histories (items appended to configuration lists, sub-configurations replaced by loads) "
             "render with masks '', one character, longer, None via to_tree/dumps/save in every format; structural check of every "
             "sensitive slot, byte scan of documents and SimFS for distinctive values, non-sensitive slots compared with the "
             "unmasked rendering",
             "Exploration (thin: no fault is essential; the simulator contributes reachable states, the disk and replay).",
             "DESIGN.md 5 (C10)"),
    "C11": T("histories over schemas with required fields, schema/field validators (harness closures recording what they "
             "observed), feature flags and lists of configurations; load_tree/loads/validate/collecting mode/insertions judged "
             "against an audit of the resulting state and the validator invocation log of exactly that call; injected validator "
             "exceptions of arbitrary types",
             "Exploration with the validator invocation log as recorded history; callback faults exercise error wrapping.",
             "DESIGN.md 5 (C11)"),
    "C12": T("histories of accepted/rejected assignments by all routes, loads, resets and constructor keywords over constant, "
             "callable and absent defaults at every depth; fresh configurations, resets and loaded maps checked against the "
             "declared defaults, callable-default invocation counters and is_value_defined for every field; frame conditions by "
             "snapshot",
             "Exploration of the defaults/user-defined/reset state machine; the model is the set of user-defined paths plus the "
             "declared default exposure.",
             "DESIGN.md 5 (C12)"),
    "C13": T("several live configurations of one schema (A mutated, B1 built before and also mutated, B2 built after) plus a "
             "control built from a separate identical schema instance; the seeded scheduler interleaves operations on A and B1; "
             "after every step every other configuration's snapshot and the schema's snapshot (field set, options, declared "
             "defaults, config types, shared item schemas) must be unchanged",
             "Exploration; 'interleaving' here is the order of operations issued by several logical actors against shared "
             "schema objects (the library has no threads).",
             "DESIGN.md 5 (C13)"),
    "C14": T("sessions whose process environment is fixed by the scheduler (each bound variable unset/empty/valid/invalid); "
             "construction, loads, assignments, resets, restarts with another environment; variable names derived from the "
             "descriptor by a reference naming rule; differential twin schema without bindings",
             "Exploration over schema-level x field-level environment settings on top-down schemas to depth 3 and over session "
             "environments; the environment seam (SimEnv) is owned by the simulator.",
             "DESIGN.md 5 (C14)"),
    "C15": T("every rejection in seeded histories (attribute, dotted path, constructor, map assigned to a sub-configuration, "
             "tree and document loads in 5 formats with exactly one offending slot, injected validator exceptions) after index-"
             "shifting list operations and replaced sub-configurations: exception type and ref_path/str() against the model's "
             "full path incl. [index] and [key]",
             "Exploration; paths depend on live parent/container links, which change with history - that is what the simulator "
             "explores.",
             "DESIGN.md 5 (C15)"),
    "C16": T("at arbitrary states of a history: get_all_fields vs schema[path] vs config[path] vs attribute access vs "
             "item_ref_path vs membership vs dotted assignment; the generated parser's options vs the model; real argv lists "
             "(empty, subsets, invalid values, both boolean switches) through parse_args and cmdline_args_override with every kind "
             "of ignore list, judged by snapshot frame conditions",
             "Exploration (thin: no seam is essential; the simulator contributes reachable states, frame conditions, replay).",
             "DESIGN.md 5 (C16)"),
    "C17": T("a typed list/dict taken from a real configuration runs next to a built-in list/dict of reference-normalised items "
             "through seeded operation histories (all mutators and queries, every iterable kind incl. iterators, generators, "
             "index objects, non-dict mappings, proxies of the same/another field/configuration); contents, order, length, return "
             "values, exception classes and typedness of copies/concatenations compared after every step",
             "Exploration (thin): operation histories against an executable reference (the built-in container).",
             "DESIGN.md 5 (C17)"),
    "C18": T("the scheduler writes main and include documents (overlapping/disjoint keys, map/non-map conflicts, chains, nested "
             "scopes, relative/absolute paths, start directories) to SimFS in each format; the loaded configuration is compared "
             "with a twin that receives load_tree(reference deep merge); include-file faults (missing, directory, unreadable, "
             "garbage, other format, torn, EIO) must fail the load and change nothing; combine_trees inputs compared before/after",
             "Exploration with a differential oracle (independent 10-line reference merge applied scope by scope).",
             "DESIGN.md 5 (C18)"),
    "C19": T("fault enumeration: for each sampled reachable state and format, with the destination already holding a previous "
             "successful save, a dry run on a cloned world counts every serialisation step (each field encoding, each key-file "
             "open, each encryption, the formatter); the save is then re-executed once per step with exactly that step failing, "
             "plus natural failures (unknown format, bad option, short/unreadable key file, unwritable key directory, value "
             "outside the format's domain); after each save that failed the destination must hold its previous bytes (a save "
             "that returns normally is held to the other half of the statement instead: what it wrote must load); successful "
             "saves are compared with the formatter's bytes and re-loaded in a new session",
             "Fault enumeration: exhaustive over the fault points of each sampled (state, format) pair, sampled over states. "
             "SimFS truncates on open('wb') exactly like a real disk, so serialising after opening is caught at every step.",
             "DESIGN.md 5 (C19)"),
}
