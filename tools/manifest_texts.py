"""Per-property texts for MANIFEST.json (kept next to the generator so they stay in step)."""

TRUSTED = ("Trusted base: CPython, the serialisation libraries' own loaders, `cryptography`/`hashlib` primitives used by "
           "the reference oracles, and the simulator itself (SimFS/SimEntropy/SimEnv/SimDNS model POSIX open/read/write "
           "semantics incl. truncate-on-open, not a real disk). Sampling over seeds, not proof; bounded histories.")

NOT_APPLICABLE = {
    "C04": "pure function of (tree, format, options): no file, clock, environment, randomness, shared state, history or "
           "fault in its statement; deterministic simulation has nothing to schedule or inject (DESIGN 6)",
    "C05": "decided by a single call on (field options, value): no state, history, seam or fault; exactness over the whole "
           "input space is an input-space claim outside this technique family (DESIGN 6)",
    "C20": "generate_stub is a pure function of the schema; the only effect named is the absence of writes to stdout, "
           "which needs a captured stream, not a simulator (DESIGN 6)",
}

TEXTS = {
    "C07": {
        "technique": "deterministic simulation: seeded KeyFile context/encrypt/decrypt histories x external key-file states "
                     "x read faults x restarts on SimFS, stepwise oracle against file-content/context-depth model",
        "level_text": "Seeded exploration of histories (open/close nested key contexts, encrypt, decrypt, new KeyFile objects, "
                      "external edits of the key file to absent/valid/other/empty/short/long/unreadable/unwritable-directory, "
                      "transient read errors, restarts) against the real KeyFile class on a simulated disk with journaled "
                      "entropy; every step is judged against a model of the file bytes and the context depth. Exploration is "
                      "the right level: the property quantifies over unbounded histories and fault sequences.",
        "design_ref": "DESIGN.md 5 (C07)",
        "level_note": TRUSTED,
    },
}
