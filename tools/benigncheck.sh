#!/bin/sh
# tools/benigncheck.sh <property> <i> [other properties to run too...]
# A behaviour-preserving change written by a sub-agent: confirm (applies, 477 tests pass, its exercise passes both ways) and run the
# property's quick check (plus any others named) against it: they must stay silent (exit 0, no VIOLATION).
pid=$1; i=$2; shift 2
src=${BEN_SRC:-/tmp/ben-$pid}/benign; oi=${BEN_INDEX:-$i}
wt=/tmp/bc-$pid-b$i-$$
out=/verif/benign/$pid-b$oi
[ -f "$src/b$i.diff" ] || { echo "no $src/b$i.diff"; exit 2; }
git -C /repo worktree add -q --detach "$wt" HEAD || exit 2
cleanup() { git -C /repo worktree remove --force "$wt"; }
cp "$src/b${i}_exercise.py" "$wt/_ex.py" 2>/dev/null
( cd "$wt" && PYTHONPATH="$wt" timeout 300 /venv/bin/python _ex.py >/dev/null 2>&1 ); clean_rc=$?
git -C "$wt" apply "$src/b$i.diff" 2>/dev/null || git -C "$wt" apply --3way "$src/b$i.diff" 2>/dev/null || { echo "[$pid-b$i] patch does not apply"; cleanup; exit 3; }
tests=$(cd "$wt" && timeout 600 /venv/bin/python -m pytest -q -p no:cacheprovider 2>&1 | tail -1)
( cd "$wt" && PYTHONPATH="$wt" timeout 300 /venv/bin/python _ex.py >/dev/null 2>&1 ); mut_rc=$?
rm -f "$wt/_ex.py"
res=""
bad=0
for p in $pid "$@"; do
  chk=$(cd /verif && CINCO_SRC="$wt" ./check "$p" --tier quick --no-evidence 2>&1); rc=$?
  res="$res $p:rc=$rc"
  if [ $rc != 0 ]; then bad=1; echo "$chk" | grep "violation:\|signature=\|HARNESS" | head -6 | cut -c1-300; fi
done
echo "[$pid-b$oi] exercise clean rc=$clean_rc with change rc=$mut_rc; tests: $tests; checks:$res"
if echo "$tests" | grep -q "477 passed"; then
  mkdir -p "$out"
  git -C "$wt" diff > "$out/patch.diff"
  cp "$src/b$i.md" "$out/README.md" 2>/dev/null
  cp "$src/b${i}_exercise.py" "$out/exercise.py" 2>/dev/null
  /venv/bin/python - "$pid" "$oi" "$tests" "$res" "$bad" "$out" <<'PY'
import json, sys
pid, i, tests, res, bad, out = sys.argv[1:7]
json.dump({"property": pid, "id": "%s-b%s" % (pid, i), "kind": "behaviour-preserving change (the property still holds)",
           "origin": "fresh sub-agent given only the property text and a scratch worktree",
           "existing_tests": tests, "checks_run": res.split(), "silent": bad == "0"}, open(out + "/meta.json", "w"), indent=1)
PY
fi
cleanup
