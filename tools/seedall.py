#!/venv/bin/python
"""Run every recorded seeded change (seeded/*/patch.diff) against its property's quick check and update
meta.json['check'].  Scratch worktrees live under /tmp and are removed immediately."""
import json
import os
import re
import subprocess
import sys

HERE = os.path.dirname(os.path.dirname(os.path.abspath(__file__)))
only = sys.argv[1:]
rows = []
for name in sorted(os.listdir(os.path.join(HERE, "seeded"))):
    d = os.path.join(HERE, "seeded", name)
    if not os.path.exists(os.path.join(d, "meta.json")) or (only and name not in only):
        continue
    meta = json.load(open(os.path.join(d, "meta.json")))
    pid = meta["property"]
    wt = "/tmp/sa-%s-%d" % (name, os.getpid())
    subprocess.run(["git", "-C", "/repo", "worktree", "add", "-q", "--detach", wt, "HEAD"], check=True)
    try:
        ap = subprocess.run(["git", "-C", wt, "apply", os.path.join(d, "patch.diff")], capture_output=True)
        if ap.returncode:
            ap = subprocess.run(["git", "-C", wt, "apply", "--3way", os.path.join(d, "patch.diff")], capture_output=True)
        if ap.returncode:
            rows.append((name, "PATCH DOES NOT APPLY", ""))
            continue
        env = dict(os.environ, CINCO_SRC=wt)
        if meta.get("not_claimed"):
            rows.append((name, "not claimed", meta.get("note", "")[:110]))
            continue
        if meta.get("not_covered"):
            rows.append((name, "NOT COVERED", meta.get("note", "")[:110]))
            continue
        sigs, nviol, rc = [], 0, 0
        for judge in meta.get("judged_by") or [pid]:
            p = subprocess.run(["./check", judge, "--tier", "quick", "--no-evidence"], cwd=HERE, env=env, capture_output=True, text=True)
            sigs += sorted(set(re.findall(r"signature=(\S+)", p.stdout)))
            nviol += len(re.findall(r"^VIOLATION", p.stdout, re.M))
            rc = max(rc, p.returncode)
        class _P:      # noqa: E701 - keeps the lines below unchanged
            returncode = rc
        p = _P
        meta["check"] = {"command": "CINCO_SRC=<worktree with patch> ./check %s --tier quick" % pid, "exit": p.returncode,
                         "violation_lines": nviol, "signatures": sigs[:6], "detected": nviol > 0 and p.returncode == 1}
        json.dump(meta, open(os.path.join(d, "meta.json"), "w"), indent=1)
        rows.append((name, "detected" if meta["check"]["detected"] else "MISSED (rc=%d)" % p.returncode, "; ".join(sigs[:3])))
    finally:
        subprocess.run(["git", "-C", "/repo", "worktree", "remove", "--force", wt])
for r in rows:
    print("%-8s %-22s %s" % r)
claimed = [r for r in rows if r[1] not in ("not claimed",)]
print("%d/%d detected (%d not claimed)" % (sum(1 for r in claimed if r[1] == "detected"), len(claimed), len(rows) - len(claimed)))
