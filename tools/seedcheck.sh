#!/bin/sh
# tools/seedcheck.sh <property> <i> [source worktree] [index to record under] [runs]   -- confirm a sub-agent's seeded change and run the property's check on it.
# Reads /tmp/seed-<property>/mutants/m<i>.{diff,md}, m<i>_demo.py; writes /verif/seeded/<property>-m<i>/ when confirmed.
pid=$1; i=$2; srcdir=${3:-/tmp/seed-$pid}; oi=${4:-$i}; runs=$5
src=$srcdir/mutants
wt=/tmp/sc-$pid-m$oi-$$
out=/verif/seeded/$pid-m$oi
[ -f "$src/m$i.diff" ] || { echo "no $src/m$i.diff"; exit 2; }
git -C /repo worktree add -q --detach "$wt" HEAD || exit 2
cleanup() { git -C /repo worktree remove --force "$wt"; }
cp "$src/m${i}_demo.py" "$wt/_demo.py"
( cd "$wt" && PYTHONPATH="$wt" timeout 120 /venv/bin/python _demo.py >/dev/null 2>&1 ); clean_rc=$?
if ! git -C "$wt" apply "$src/m$i.diff" 2>/dev/null; then
  git -C "$wt" apply --3way "$src/m$i.diff" 2>/dev/null || { echo "[$pid-m$oi] patch does not apply to current HEAD"; cleanup; exit 3; }
fi
tests=$(cd "$wt" && timeout 600 /venv/bin/python -m pytest -q -p no:cacheprovider 2>&1 | tail -1)
( cd "$wt" && PYTHONPATH="$wt" timeout 120 /venv/bin/python _demo.py >/tmp/sc-demo-$$.txt 2>&1 ); mut_rc=$?
rm -f "$wt/_demo.py"
if [ -n "$runs" ]; then extra="--runs $runs"; else extra="--tier quick"; fi
chk=$(cd /verif && CINCO_SRC="$wt" ./check "$pid" $extra --no-evidence 2>&1); chk_rc=$?
nviol=$(echo "$chk" | grep -c '^VIOLATION')
sigs=$(echo "$chk" | grep 'signature=' | sed 's/ step=.*//; s/.*signature=//' | sort -u | head -5 | tr '\n' ';')
echo "[$pid-m$oi] demo clean rc=$clean_rc, demo with change rc=$mut_rc, tests: $tests"
echo "[$pid-m$oi] check rc=$chk_rc violations=$nviol sigs=$sigs"
echo "$chk" | grep "HARNESS" | head -3
ok=1
[ "$clean_rc" = 0 ] || ok=0
[ "$mut_rc" = 1 ] || ok=0
echo "$tests" | grep -q "477 passed" || ok=0
if [ $ok = 1 ]; then
  mkdir -p "$out"
  git -C "$wt" diff > "$out/patch.diff"
  cp "$src/m${i}_demo.py" "$out/demo.py"
  cp "$src/m$i.md" "$out/README.md" 2>/dev/null
  /venv/bin/python - "$pid" "$oi" "$tests" "$chk_rc" "$nviol" "$sigs" "$out" <<'PY'
import json, sys
pid, i, tests, rc, nviol, sigs, out = sys.argv[1:8]
desc = open(out + "/README.md").read().strip() if __import__("os").path.exists(out + "/README.md") else ""
json.dump({
  "property": pid, "id": "%s-m%s" % (pid, i), "origin": "fresh sub-agent given only the property text and a scratch worktree",
  "breaks": desc.split("\n")[0][:300], "needs_to_manifest": desc,
  "confirmed": {"applies_to_repo_head": True, "existing_tests": tests, "demo_exit_clean_tree": 0, "demo_exit_with_change": 1,
                "how": "tools/seedcheck.sh %s %s (scratch worktree under /tmp, removed afterwards)" % (pid, i)},
  "check": {"command": "CINCO_SRC=<worktree with patch> ./check %s --tier quick" % pid, "exit": int(rc), "violation_lines": int(nviol),
            "signatures": [s for s in sigs.split(";") if s], "detected": int(nviol) > 0},
}, open(out + "/meta.json", "w"), indent=1)
PY
  echo "[$pid-m$oi] recorded in $out"
else
  echo "[$pid-m$oi] NOT confirmed (kept out of /verif/seeded)"; cat /tmp/sc-demo-$$.txt | tail -5
fi
rm -f /tmp/sc-demo-$$.txt
cleanup
