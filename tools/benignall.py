#!/venv/bin/python
"""Run every recorded behaviour-preserving change (benign/*/patch.diff) against its property's quick check (and the
extra properties given on the command line as +Cnn): all must stay silent.  Scratch worktrees live under /tmp."""
import json
import os
import subprocess
import sys

HERE = os.path.dirname(os.path.dirname(os.path.abspath(__file__)))
only = [a for a in sys.argv[1:] if not a.startswith("+")]
extra = [a[1:] for a in sys.argv[1:] if a.startswith("+")]
rows = []
for name in sorted(os.listdir(os.path.join(HERE, "benign"))):
    d = os.path.join(HERE, "benign", name)
    if not os.path.exists(os.path.join(d, "meta.json")) or (only and name not in only):
        continue
    meta = json.load(open(os.path.join(d, "meta.json")))
    wt = "/tmp/ba-%s-%d" % (name, os.getpid())
    subprocess.run(["git", "-C", "/repo", "worktree", "add", "-q", "--detach", wt, "HEAD"], check=True)
    try:
        ap = subprocess.run(["git", "-C", wt, "apply", os.path.join(d, "patch.diff")], capture_output=True)
        if ap.returncode:
            ap = subprocess.run(["git", "-C", wt, "apply", "--3way", os.path.join(d, "patch.diff")], capture_output=True)
            subprocess.run(["git", "-C", wt, "reset", "-q"], capture_output=True)
        if ap.returncode:
            rows.append((name, "PATCH DOES NOT APPLY", "(written against the tree before the last repairs)"))
            continue
        res, bad, notes = [], False, []
        for pid in [meta["property"]] + extra:
            p = subprocess.run(["./check", pid, "--tier", "quick", "--no-evidence"], cwd=HERE, env=dict(os.environ, CINCO_SRC=wt),
                               capture_output=True, text=True)
            res.append("%s:rc=%d" % (pid, p.returncode))
            if p.returncode:
                bad = True
                notes += [l.strip()[:160] for l in p.stdout.splitlines() if "signature=" in l or "HARNESS" in l][:3]
        meta["checks_run"], meta["silent"] = res, not bad
        json.dump(meta, open(os.path.join(d, "meta.json"), "w"), indent=1)
        rows.append((name, "silent" if not bad else "ALARM", " ".join(res) + " " + "; ".join(notes)))
    finally:
        subprocess.run(["git", "-C", "/repo", "worktree", "remove", "--force", wt])
for r in rows:
    print("%-8s %-22s %s" % r)
print("%d/%d silent" % (sum(1 for r in rows if r[1] == "silent"), len(rows)))
