#!/venv/bin/python
"""Line coverage of /repo/cincoconfig reached by the simulated runs (300 seeds per property, in-process).
Prints per-file coverage and the uncovered lines: a reach measurement, not a verdict."""
import os
import sys

HERE = os.path.dirname(os.path.dirname(os.path.abspath(__file__)))
sys.path.insert(0, HERE)
import coverage  # noqa: E402

cov = coverage.Coverage(source=[os.path.join(os.environ.get("CINCO_SRC", "/repo"), "cincoconfig")], data_file=None)
cov.start()
from sim import batch, engine  # noqa: E402
from sim.registry import TABLE, scenario_for  # noqa: E402

n = int(sys.argv[1]) if len(sys.argv) > 1 else 300
for prop in sorted(TABLE):
    scn = scenario_for(prop)
    for i in range(n):
        out = engine.execute(scn, batch.run_seed(3, i))
        if out.harness_error:
            print("harness error", prop, out.harness_error[:200])
cov.stop()
cov.report(show_missing=True, skip_empty=True)
