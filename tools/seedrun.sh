#!/bin/sh
# tools/seedrun.sh <seeded dir name> [extra check args]  -- run the property's check against a recorded seeded change
d=/verif/seeded/$1; shift
pid=${FORCE_PROP:-$(/venv/bin/python -c "import json,sys; print(json.load(open('$d/meta.json'))['property'])")}
wt=/tmp/sr-$$
git -C /repo worktree add -q --detach "$wt" HEAD || exit 2
git -C "$wt" apply "$d/patch.diff" 2>/dev/null || git -C "$wt" apply --3way "$d/patch.diff" || { echo "patch does not apply"; git -C /repo worktree remove --force "$wt"; exit 3; }
out=$(cd /verif && CINCO_SRC="$wt" ./check "$pid" --tier quick --no-evidence "$@" 2>&1)
rc=$?
echo "[$(basename $d)] rc=$rc violations=$(echo "$out" | grep -c '^VIOLATION') $(echo "$out" | grep 'signature=' | sed 's/ step=.*//; s/.*signature=//' | sort -u | head -4 | tr '\n' ';')"
echo "$out" | grep HARNESS | head -2
git -C /repo worktree remove --force "$wt"
