#!/venv/bin/python
"""tools/benigntask.py <round>   -- prepare scratch worktrees /tmp/ben<round>-<property> with a TASK.md asking a fresh
sub-agent for two behaviour-preserving re-implementations of the code the property depends on (property text only)."""
import json
import os
import subprocess
import sys

HERE = os.path.dirname(os.path.dirname(os.path.abspath(__file__)))
rnd = sys.argv[1]
PROPS = ["C01", "C02", "C03", "C06", "C07", "C08", "C09", "C10", "C11", "C12", "C13", "C14", "C15", "C16", "C17", "C18", "C19"]
TMPL = '''You are working ONLY inside the scratch git worktree {d} of the pure-Python library ameily/cincoconfig (schema-driven configuration: typed validating fields, nested configs, JSON/XML/YAML/BSON/pickle load/save, encrypted and hashed secret fields). Do not read, list or modify anything under /verif or /repo, and do not create files outside {d}.

PROPERTY {id}: {title}
Statement: {statement}
Quantifier: {quant}
Code the property is anchored in: {files}

TASK: produce TWO independent BEHAVIOUR-PRESERVING changes to the library (files under {d}/cincoconfig/ only): realistic refactorings, optimisations, robustness improvements or re-implementations of the code this property depends on, which a maintainer could plausibly merge, and under which the property above STILL HOLDS for every input/history in its quantifier. They should change HOW the code works substantially (different control flow, different helper functions, different standard-library calls, different internal data structures, different but still correct order of independent steps, additional defensive checks, different error messages), not just rename things. Examples of the spirit: writing a file through a temporary file in the same directory followed by os.replace(); reading a file with pathlib or with a loop over fixed-size chunks; drawing randomness with the `secrets` module; replacing recursion by an explicit stack; building a result in one pass instead of two; caching something that is provably invalidated correctly (keyed by path, size and mtime_ns, or dropped whenever the inputs change); validating before committing; using a different but equivalent standard-library API; making a private helper or attribute lazy. Each change must keep the public API and all documented behaviour, and
 (1) the package still imports and
 (2) the existing test-suite still passes: `cd {d} && /venv/bin/python -m pytest -q -p no:cacheprovider`. Baseline on the unmodified tree: 477 passed, 1 failed (tests/test_schema.py::TestSchema::test_setattr_field fails on the unmodified tree too; ignore exactly that one). Do not edit the tests. (If a test only fails because it mocks an implementation detail you replaced, pick a different refactoring.)

Be careful and honest: if you are not sure a change preserves the property in some corner case, do not use it. Prefer changes that touch the property's own mechanism deeply over cosmetic ones; changes already tried in an earlier round and to be avoided: {taken}

For each change i in (1, 2) write, under {d}/benign/ :
  b{{i}}.diff   - `git diff` of the worktree with ONLY that change applied (must apply with `git apply` to a clean checkout of HEAD)
  b{{i}}.md     - 4-8 lines: what was re-implemented and how, and the argument why the property still holds (including the corner cases you considered).
  b{{i}}_exercise.py - a standalone script (run as `cd {d}/benign && PYTHONPATH={d} /venv/bin/python b{{i}}_exercise.py`) that exercises the changed code paths through the public API, asserts the property-relevant behaviour, and exits 0 both on the unmodified tree and with the change applied. Use a temporary directory for files and pass key_filename explicitly (never touch ~/.cincokey).
Do not use `git stash` (the stash is shared between worktrees). When you are done, leave the worktree at HEAD state (`git -C {d} checkout -- cincoconfig`) with only the new benign/ directory added. Reply with the list of files written and a one-line summary of each change.'''
props = {}
for line in open(os.path.join(HERE, "properties.jsonl")):
    p = json.loads(line)
    props[p["id"]] = p
for pid in PROPS:
    d = "/tmp/ben%s-%s" % (rnd, pid)
    if not os.path.isdir(d):
        subprocess.run(["git", "-C", "/repo", "worktree", "add", "-q", "--detach", d, "HEAD"], check=True)
    taken = []
    for name in sorted(os.listdir(os.path.join(HERE, "benign"))):
        m = os.path.join(HERE, "benign", name, "README.md")
        if name.startswith(pid + "-") and os.path.exists(m):
            first = [x.strip() for x in open(m).read().splitlines() if x.strip()]
            taken.append("(%s) %s" % (name, " ".join(first)[:220]))
    p = props[pid]
    t = TMPL.format(d=d, id=pid, title=p["title"], statement=p["statement"], quant=p["quantifier"]["text"],
                    files=", ".join(p["anchors"]["files"]), taken=" ".join(taken) or "none")
    open(os.path.join(d, "TASK.md"), "w").write(t + "\n")
print("prepared", len(PROPS), "worktrees /tmp/ben%s-*" % rnd)
